package pilosa

// Deterministic witnesses of the C09 findings (no generator, no strace): each
// builds by hand the file state a kill at one particular point leaves behind.

import (
	"bytes"
	"fmt"
	"io/ioutil"
	"os"
	"path/filepath"
	"strings"
	"testing"
	"time"

	"github.com/pilosa/pilosa/roaring"
)

type vc09RecordingWriter struct{ writes [][]byte }

func (w *vc09RecordingWriter) Write(p []byte) (int, error) {
	w.writes = append(w.writes, append([]byte(nil), p...))
	return len(p), nil
}

// D10: an ImportRoaring op reached the op log with two writes; the file a kill
// between them leaves (header without payload) cannot be opened again.
func TestVerifWitness_D10(t *testing.T) {
	b := roaring.NewFileBitmap()
	var base bytes.Buffer
	if _, err := b.WriteTo(&base); err != nil {
		t.Fatal(err)
	}
	var payload bytes.Buffer
	if _, err := roaring.NewBitmap(1, 65537, 3*ShardWidth+2).WriteTo(&payload); err != nil {
		t.Fatal(err)
	}
	w := &vc09RecordingWriter{}
	b.OpWriter = w
	if _, _, err := b.ImportRoaringBits(payload.Bytes(), false, true, 0); err != nil {
		t.Fatal(err)
	}
	file := append([]byte(nil), base.Bytes()...)
	for i, wr := range w.writes {
		file = append(file, wr...)
		b2 := roaring.NewFileBitmap()
		if err := b2.UnmarshalBinary(file); err != nil {
			t.Fatalf("after write %d of %d of one roaring import op the fragment file cannot be read back (a kill here blocks restart): %v", i+1, len(w.writes), err)
		}
	}
	b3 := roaring.NewFileBitmap()
	if err := b3.UnmarshalBinary(file); err != nil || !b3.Contains(65537) || b3.Count() != 3 {
		t.Fatalf("complete op log does not replay: err=%v count=%d", err, b3.Count())
	}
}

// DC1: a partial entry at the tail of the translate file (what a kill between
// the two writes of an entry larger than the 4 KiB buffer leaves) made Open fail.
func TestVerifWitness_DC1(t *testing.T) {
	dir, err := ioutil.TempDir("", "vc09-dc1-")
	if err != nil {
		t.Fatal(err)
	}
	defer os.RemoveAll(dir)
	path := filepath.Join(dir, ".keys")
	open := func() *TranslateFile {
		tf := NewTranslateFile(OptTranslateFileMapSize(1 << 22))
		tf.Path = path
		if err := tf.Open(); err != nil {
			t.Fatalf("TranslateFile.Open with a partial trailing entry: %v", err)
		}
		return tf
	}
	tf := open()
	idA, err := tf.TranslateColumnsToUint64("i", []string{"a"})
	if err != nil {
		t.Fatal(err)
	}
	big := strings.Repeat("x", 9000)
	// the first write of the 9000-byte entry carries 4096 bytes; the other cuts
	// model a write torn elsewhere (inside the length prefix, the header, a key)
	for _, cut := range []int64{4096, 4097, 1, 3, 5000} {
		fi, err := os.Stat(path)
		if err != nil {
			t.Fatal(err)
		}
		entryStart := fi.Size()
		if _, err := tf.TranslateColumnsToUint64("i", []string{big}); err != nil {
			t.Fatal(err)
		}
		tf.Close()
		if err := os.Truncate(path, entryStart+cut); err != nil {
			t.Fatal(err)
		}
		tf = open()
		if got, _ := tf.TranslateColumnToString("i", idA[0]); got != "a" {
			t.Fatalf("cut %d: id %d resolves to %q after reopening, want \"a\"", cut, idA[0], got)
		}
		// a key allocated after the recovery must survive a clean reopen
		key := fmt.Sprintf("b%d", cut)
		idB, err := tf.TranslateColumnsToUint64("i", []string{key})
		if err != nil {
			t.Fatal(err)
		}
		tf.Close()
		tf = open()
		if got, _ := tf.TranslateColumnToString("i", idB[0]); got != key {
			t.Fatalf("cut %d: key %q allocated after recovering from a partial entry resolves to %q after a clean reopen", cut, key, got)
		}
		if got, err := tf.TranslateColumnsToUint64("i", []string{"a", key}); err != nil || got[0] != idA[0] || got[1] != idB[0] {
			t.Fatalf("cut %d: keys a,%s resolve to %v,%v want %d,%d", cut, key, got, err, idA[0], idB[0])
		}
	}
	tf.Close()
}

func vc09DiskBitmap(t *testing.T, path string) *roaring.Bitmap {
	buf, err := ioutil.ReadFile(path)
	if err != nil {
		t.Fatal(err)
	}
	b := roaring.NewFileBitmap()
	if err := b.UnmarshalBinary(buf); err != nil {
		t.Fatalf("fragment file unreadable: %v", err)
	}
	return b
}

// DC2: setRow/clearRow (Store(), ClearRow()) returned before the change was on
// disk: the row is not in the op log and the snapshot was only queued.
func TestVerifWitness_DC2(t *testing.T) {
	f := mustOpenFragment("i", "f", viewStandard, 0, "")
	defer f.Close()
	q := make(chan *fragment, 1) // a snapshot queue whose worker is this test
	f.mu.Lock()
	f.snapshotQueue = q
	f.mu.Unlock()
	if _, err := f.setBit(1, 5); err != nil {
		t.Fatal(err)
	}
	run := func(what string, call func() error, durable func(b *roaring.Bitmap) bool) {
		done := make(chan error, 1)
		go func() { done <- call() }()
		fr := <-q // the call asked for a snapshot
		select {
		case err := <-done:
			// acknowledged while the snapshot has not run
			if err != nil {
				t.Fatal(err)
			}
			ok := durable(vc09DiskBitmap(t, f.path))
			// drain like the worker would (Close waits for the queued snapshot)
			_ = fr.protectedSnapshot(true)
			fr.snapshotCond.Broadcast()
			if !ok {
				t.Fatalf("%s returned (acknowledged) while the fragment file does not contain the change and the snapshot is only queued: a kill now loses it", what)
			}
			return
		case <-time.After(300 * time.Millisecond):
		}
		if err := fr.protectedSnapshot(true); err != nil {
			t.Fatal(err)
		}
		fr.snapshotCond.Broadcast()
		if err := <-done; err != nil {
			t.Fatal(err)
		}
		if !durable(vc09DiskBitmap(t, f.path)) {
			t.Fatalf("%s returned after its snapshot but the fragment file does not contain the change", what)
		}
	}
	run("setRow(row 2 := {5})", func() error { _, err := f.setRow(NewRow(5), 2); return err },
		func(b *roaring.Bitmap) bool { return b.Contains(2*ShardWidth + 5) })
	run("clearRow(1)", func() error { _, err := f.clearRow(1); return err },
		func(b *roaring.Bitmap) bool { return !b.Contains(1*ShardWidth + 5) })
	// a source row without data in this shard empties the stored row: that must be persisted too
	done := make(chan error, 1)
	go func() { _, err := f.setRow(NewRow(), 2); done <- err }()
	select {
	case fr := <-q:
		_ = fr.protectedSnapshot(true)
		fr.snapshotCond.Broadcast()
		<-done
	case <-done:
	case <-time.After(2 * time.Second):
		t.Fatalf("setRow(empty row) neither returned nor asked for a snapshot")
	}
	if vc09DiskBitmap(t, f.path).Contains(2*ShardWidth + 5) {
		t.Fatalf("setRow(row 2 := {}) returned but the fragment file still holds row 2 and no snapshot was requested")
	}
}

// DC3 (open): a write that needs several op-log appends in one fragment is not
// atomic: the file a kill between the appends leaves reads a value that was
// never written. Int field column 1: 5 -> 2 passes through 7/6/... on disk.
func TestVerifWitness_DC3(t *testing.T) {
	f := mustOpenBSIFragment("i", "v", viewBSIGroupPrefix+"v", 0)
	defer f.Close()
	if _, err := f.setValue(1, 3, 5); err != nil {
		t.Fatal(err)
	}
	fi, err := os.Stat(f.path)
	if err != nil {
		t.Fatal(err)
	}
	s0 := fi.Size()
	if _, err := f.setValue(1, 3, 2); err != nil {
		t.Fatal(err)
	}
	buf, err := ioutil.ReadFile(f.path)
	if err != nil {
		t.Fatal(err)
	}
	if (int64(len(buf))-s0)%13 != 0 {
		t.Fatalf("unexpected op log growth %d", int64(len(buf))-s0)
	}
	for l := s0; l <= int64(len(buf)); l += 13 {
		b := roaring.NewFileBitmap()
		if err := b.UnmarshalBinary(buf[:l]); err != nil {
			t.Fatalf("prefix %d: %v", l, err)
		}
		vals := vc09DecodeBSI(0, b.Slice())
		if v, ok := vals[1]; !ok || (v != 5 && v != 2) {
			t.Fatalf("after %d of %d op-log appends of Set(1, v=2) over the stored value 5, column 1 reads %d (exists=%v): a value never written", (l-s0)/13, (int64(len(buf))-s0)/13, v, ok)
		}
	}
}
