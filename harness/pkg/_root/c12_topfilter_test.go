package pilosa

// C12 — dense check of TopN(n) with a filter row on one shard whose rows fit a freshly recalculated ranked cache.
// (Added by the lead after seeded change C12-b — `continue` turned into `break` once the heap is full — was missed:
// the shared state machine rarely produces "heap full, a row below the current minimum, then a row above it".)
// Every (n, filter) pair is asked on a small generated fragment and compared with the model.

import (
	"fmt"
	"sort"
	"testing"

	"github.com/pilosa/pilosa/internal/vkit"
	"pgregory.net/rapid"
)

func TestVerifC12_TopNFilterDense(outer *testing.T) {
	defer vkit.Flush()
	rapid.Check(outer, func(t *rapid.T) {
		const ncols = 10
		nrows := rapid.IntRange(3, 8).Draw(t, "nrows")
		rowIDs := rapid.SliceOfNDistinct(rapid.SampledFrom([]uint64{0, 1, 2, 3, 7, 99, 100, 101, 1000}), nrows, nrows, func(v uint64) uint64 { return v }).Draw(t, "rows")
		colPool := []uint64{0, 1, 2, 65535, 65536, 65537, 131072, ShardWidth - 2, ShardWidth - 1, 70000}
		masks := make([]uint16, nrows)
		for i := range masks {
			masks[i] = rapid.Uint16Range(1, 1<<ncols-1).Draw(t, fmt.Sprintf("mask%d", i))
		}
		f := mustOpenFragment("i", "f", viewStandard, 0, CacheTypeRanked)
		defer f.Clean(outer)
		for i, r := range rowIDs {
			for b := 0; b < ncols; b++ {
				if masks[i]&(1<<uint(b)) != 0 {
					if _, err := f.setBit(r, colPool[b]); err != nil {
						t.Fatalf("setBit: %v", err)
					}
				}
			}
		}
		f.RecalculateCache()
		nfilters := rapid.IntRange(1, 3).Draw(t, "nfilters")
		c := vkit.NewCase().Key("topfilter", rowIDs, masks)
		defer c.Done()
		popcount := func(x uint16) (n uint64) {
			for ; x != 0; x &= x - 1 {
				n++
			}
			return
		}
		shapeSeen := false
		for fi := 0; fi < nfilters; fi++ {
			fm := rapid.Uint16Range(1, 1<<ncols-1).Draw(t, fmt.Sprintf("filter%d", fi))
			var fcols []uint64
			for b := 0; b < ncols; b++ {
				if fm&(1<<uint(b)) != 0 {
					fcols = append(fcols, colPool[b])
				}
			}
			src := NewRow(fcols...)
			truth := map[uint64]uint64{}
			var counts []uint64
			// rows in rank order (by unfiltered count) to recognise the interesting shape
			type rk struct{ full, filt uint64 }
			var ranked []rk
			for i, r := range rowIDs {
				v := popcount(masks[i] & fm)
				ranked = append(ranked, rk{popcount(masks[i]), v})
				if v > 0 {
					truth[r] = v
					counts = append(counts, v)
				}
			}
			sort.Slice(counts, func(i, j int) bool { return counts[i] > counts[j] })
			sort.SliceStable(ranked, func(i, j int) bool { return ranked[i].full > ranked[j].full })
			for n := 1; n <= nrows; n++ {
				k := len(counts)
				if n < k {
					k = n
				}
				// shape: after n rows in rank order, a row with a filtered count below the current minimum is followed by a larger one
				if n+1 < len(ranked) {
					min := ^uint64(0)
					for _, x := range ranked[:n] {
						if x.filt < min {
							min = x.filt
						}
					}
					for j := n; j+1 < len(ranked); j++ {
						if ranked[j].filt < min && ranked[j+1].filt > min {
							shapeSeen = true
						}
					}
				}
				pairs, err := f.top(topOptions{N: n, Src: src})
				if err != nil {
					t.Fatalf("top: %v", err)
				}
				desc := fmt.Sprintf("rows %v masks %b filter %b: top(n=%d, filter) = %v, true filtered counts %v", rowIDs, masks, fm, n, pairs, truth)
				seen := map[uint64]bool{}
				var got []uint64
				for i, p := range pairs {
					if seen[p.ID] {
						t.Fatalf("%s: row %d twice", desc, p.ID)
					}
					seen[p.ID] = true
					if truth[p.ID] != p.Count {
						t.Fatalf("%s: row %d reported with count %d, true count %d", desc, p.ID, p.Count, truth[p.ID])
					}
					if i > 0 && pairs[i-1].Count < p.Count {
						t.Fatalf("%s: not in non-increasing order", desc)
					}
					got = append(got, p.Count)
				}
				if len(got) < k {
					t.Fatalf("%s: %d rows returned, want at least min(n, rows meeting the filter) = %d", desc, len(got), k)
				}
				sort.Slice(got, func(i, j int) bool { return got[i] > got[j] })
				for i := 0; i < k; i++ {
					if got[i] != counts[i] {
						t.Fatalf("%s: the %d largest filtered counts are %v, reported (sorted) %v", desc, k, counts[:k], got)
					}
				}
			}
		}
		c.ClassIf(shapeSeen, "belowMinThenAboveMinAfterHeapFull")
		c.NT(shapeSeen)
		c.Sample(map[string]interface{}{"rows": rowIDs, "masks": masks})
	})
}
