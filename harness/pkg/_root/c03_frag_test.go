package pilosa

// C03 layer (b) — derived values are isolated, fragment level (in-package).
//
// Histories on two fragments of one shard (opened as the holder opens them:
// real file, mmap, B-tree storage, snapshot queue): derive rows with
// fragment.row (cache miss and hit), Row.Union/Intersect/Difference/Xor of kept
// values, store a kept value with setRow; then setBit/clearBit/bulkImport/
// importRoaring/clearRow/Snapshot()/Close+Open on either fragment and
// SetBit/Merge on kept values. After every step every kept value is re-read
// against ITS OWN model (the set it had when derived, plus its own mutations)
// and every fragment row against the fragment's model, through the row cache
// and from storage.

import (
	"bytes"
	"context"
	"fmt"
	"os"
	"runtime/debug"
	"sort"
	"strings"
	"testing"

	"github.com/pilosa/pilosa/internal/vkit"
	"github.com/pilosa/pilosa/roaring"
	"pgregory.net/rapid"
)

type vc3Frag struct {
	name  string
	f     *fragment
	model map[uint64]map[uint64]bool // row -> absolute columns
}

type vc3Derived struct {
	id      int
	desc    string
	row     *Row
	model   map[uint64]bool
	shared  bool // shared >= 1 container object with fragment storage when derived
	from    string
	fromRow uint64
	stored  bool // was passed to setRow as the source
	hit     bool // a later step wrote to / remapped / closed the storage it shared with
}

var vc3Rows = []uint64{0, 1, 2, 3}
var vc3Offsets = []uint64{0, 1, 2, 65535, 65536, 65537, 131072, ShardWidth - 1}

func vc3sortedSet(m map[uint64]bool) []uint64 {
	out := make([]uint64, 0, len(m))
	for k, v := range m {
		if v {
			out = append(out, k)
		}
	}
	sort.Slice(out, func(i, j int) bool { return out[i] < out[j] })
	return out
}

func vc3eq(a, b []uint64) bool {
	if len(a) != len(b) {
		return false
	}
	for i := range a {
		if a[i] != b[i] {
			return false
		}
	}
	return true
}

func vc3short(a []uint64) string {
	if len(a) > 12 {
		return fmt.Sprintf("%v...(%d values)", a[:12], len(a))
	}
	return fmt.Sprint(a)
}

type vc3Case struct {
	t      *rapid.T
	shard  uint64
	frags  []*vc3Frag
	kept   []*vc3Derived
	log    []string
	nextID int
	cls    map[string]bool
}

func (c *vc3Case) logf(format string, a ...interface{}) {
	c.log = append(c.log, fmt.Sprintf(format, a...))
}

func (c *vc3Case) fatalf(format string, a ...interface{}) {
	c.t.Fatalf("%s\nhistory:\n  %s", fmt.Sprintf(format, a...), strings.Join(c.log, "\n  "))
}

func (c *vc3Case) col(label string) uint64 {
	return c.shard*ShardWidth + rapid.SampledFrom(vc3Offsets).Draw(c.t, label)
}

// sharedWith reports whether a row read from fr shares a container object with fr's storage.
func vc3shared(r *Row, fr *vc3Frag, rowID uint64) bool {
	for _, seg := range r.segments {
		it, _ := seg.data.Containers.Iterator(0)
		for it.Next() {
			k, cont := it.Value()
			if cont == nil {
				continue
			}
			sk := rowID<<shardVsContainerExponent + (k % (1 << shardVsContainerExponent))
			if fr.f.storage.Containers.Get(sk) == cont {
				return true
			}
		}
	}
	return false
}

func (c *vc3Case) keep(desc string, r *Row, model map[uint64]bool, shared bool, from string, fromRow uint64) *vc3Derived {
	d := &vc3Derived{id: c.nextID, desc: desc, row: r, model: model, shared: shared, from: from, fromRow: fromRow}
	c.nextID++
	c.kept = append(c.kept, d)
	return d
}

func vc3copy(m map[uint64]bool) map[uint64]bool {
	out := map[uint64]bool{}
	for k, v := range m {
		if v {
			out[k] = true
		}
	}
	return out
}

// touched marks kept values that shared storage with (fr,row) — or any row when all is set.
func (c *vc3Case) touched(fr *vc3Frag, row uint64, all bool) {
	for _, d := range c.kept {
		if d.shared && d.from == fr.name && (all || d.fromRow == row) {
			d.hit = true
		}
	}
}

func (c *vc3Case) checkAll(after string) {
	for _, d := range c.kept {
		got := d.row.Columns()
		want := vc3sortedSet(d.model)
		if !vc3eq(got, want) {
			c.fatalf("after %s: kept value #%d (%s) changed: got %s, want %s", after, d.id, d.desc, vc3short(got), vc3short(want))
		}
		if n := d.row.Count(); n != uint64(len(want)) {
			c.fatalf("after %s: kept value #%d (%s): Count()=%d, want %d", after, d.id, d.desc, n, len(want))
		}
	}
	for _, fr := range c.frags {
		for _, r := range vc3Rows {
			want := vc3sortedSet(fr.model[r])
			if got := fr.f.row(r).Columns(); !vc3eq(got, want) {
				c.fatalf("after %s: fragment %s row(%d) = %s, want %s", after, fr.name, r, vc3short(got), vc3short(want))
			}
			fr.f.mu.Lock()
			got := fr.f.rowFromStorage(r).Columns()
			fr.f.mu.Unlock()
			if !vc3eq(got, want) {
				c.fatalf("after %s: fragment %s rowFromStorage(%d) = %s, want %s", after, fr.name, r, vc3short(got), vc3short(want))
			}
		}
	}
}

func (c *vc3Case) step() string { return c.stepFrom(nil) }

// stepFrom draws the operation from ops (all operations when nil).
func (c *vc3Case) stepFrom(ops []string) string {
	t := c.t
	fr := c.frags[rapid.IntRange(0, len(c.frags)-1).Draw(t, "frag")]
	if ops != nil {
		return c.do(fr, rapid.SampledFrom(ops).Draw(t, "prefill"))
	}
	return c.do(fr, rapid.SampledFrom([]string{"derive", "derive", "deriveMerged", "combine", "combine", "setBit", "setBit", "clearBit", "bulkImport", "importRoaring",
		"importDense", "setRow", "setRow", "clearRow", "snapshot", "snapshot", "reopen", "mutateKept", "mutateKept", "mergeKept"}).Draw(t, "op"))
}

func (c *vc3Case) do(fr *vc3Frag, op string) string {
	t := c.t
	row := rapid.SampledFrom(vc3Rows).Draw(t, "row")
	ensure := func(r uint64) map[uint64]bool {
		if fr.model[r] == nil {
			fr.model[r] = map[uint64]bool{}
		}
		return fr.model[r]
	}
	if op == "derive" || op == "deriveMerged" {
		// prefer rows that hold data: an empty row shares nothing with the storage
		var full []uint64
		for _, r := range vc3Rows {
			if len(fr.model[r]) > 0 {
				full = append(full, r)
			}
		}
		if len(full) > 0 && rapid.IntRange(0, 3).Draw(t, "preferFull") != 0 {
			row = rapid.SampledFrom(full).Draw(t, "fullRow")
		}
	}
	switch op {
	case "derive":
		r := fr.f.row(row)
		sh := vc3shared(r, fr, row)
		d := c.keep(fmt.Sprintf("%s.row(%d)", fr.name, row), r, vc3copy(fr.model[row]), sh, fr.name, row)
		c.logf("#%d = %s.row(%d) shared=%v", d.id, fr.name, row, sh)
		c.cls["derive:row"] = true
		if sh {
			c.cls["derive:shares-container"] = true
		}
	case "deriveMerged":
		// what view.row / the executor's reduce step hand out: a new Row that adopted the fragment row's segments
		fr0 := fr.f.row(row)
		sh := vc3shared(fr0, fr, row)
		r := NewRow()
		r.Merge(fr0)
		d := c.keep(fmt.Sprintf("NewRow().Merge(%s.row(%d))", fr.name, row), r, vc3copy(fr.model[row]), sh, fr.name, row)
		c.logf("#%d = NewRow().Merge(%s.row(%d)) shared=%v", d.id, fr.name, row, sh)
		c.cls["derive:merged"] = true
		if sh {
			c.cls["derive:shares-container"] = true
		}
	case "combine":
		if len(c.kept) < 2 {
			return ""
		}
		a := c.kept[rapid.IntRange(0, len(c.kept)-1).Draw(t, "a")]
		b := c.kept[rapid.IntRange(0, len(c.kept)-1).Draw(t, "b")]
		kind := rapid.SampledFrom([]string{"Union", "Intersect", "Difference", "Xor"}).Draw(t, "kind")
		var r *Row
		m := map[uint64]bool{}
		switch kind {
		case "Union":
			r = a.row.Union(b.row)
			for k := range a.model {
				m[k] = true
			}
			for k := range b.model {
				m[k] = true
			}
		case "Intersect":
			r = a.row.Intersect(b.row)
			for k := range a.model {
				if b.model[k] {
					m[k] = true
				}
			}
		case "Difference":
			r = a.row.Difference(b.row)
			for k := range a.model {
				if !b.model[k] {
					m[k] = true
				}
			}
		case "Xor":
			r = a.row.Xor(b.row)
			for k := range a.model {
				if !b.model[k] {
					m[k] = true
				}
			}
			for k := range b.model {
				if !a.model[k] {
					m[k] = true
				}
			}
		}
		d := c.keep(fmt.Sprintf("#%d.%s(#%d)", a.id, kind, b.id), r, m, a.shared || b.shared, a.from, a.fromRow)
		c.logf("#%d = #%d.%s(#%d)", d.id, a.id, kind, b.id)
		c.cls["derive:"+kind] = true
	case "setBit":
		col := c.col("col")
		if _, err := fr.f.setBit(row, col); err != nil {
			c.fatalf("%s.setBit(%d,%d): %v", fr.name, row, col, err)
		}
		ensure(row)[col] = true
		c.touched(fr, row, false)
		c.logf("%s.setBit(%d, %d)", fr.name, row, col)
	case "clearBit":
		col := c.col("col")
		if _, err := fr.f.clearBit(row, col); err != nil {
			c.fatalf("%s.clearBit(%d,%d): %v", fr.name, row, col, err)
		}
		delete(ensure(row), col)
		c.touched(fr, row, false)
		c.logf("%s.clearBit(%d, %d)", fr.name, row, col)
	case "bulkImport":
		n := rapid.IntRange(1, 6).Draw(t, "n")
		clear := rapid.IntRange(0, 3).Draw(t, "clear") == 0
		var rows, cols []uint64
		for i := 0; i < n; i++ {
			rows = append(rows, rapid.SampledFrom(vc3Rows).Draw(t, "brow"))
			cols = append(cols, c.col("bcol"))
		}
		c.logf("%s.bulkImport(rows=%v cols=%v clear=%v)", fr.name, rows, cols, clear)
		for i := range rows {
			if clear {
				delete(ensure(rows[i]), cols[i])
			} else {
				ensure(rows[i])[cols[i]] = true
			}
			c.touched(fr, rows[i], false)
		}
		if err := fr.f.bulkImport(rows, cols, &ImportOptions{Clear: clear}); err != nil {
			c.fatalf("%s.bulkImport: %v", fr.name, err)
		}
		c.cls["write:bulkImport"] = true
	case "importRoaring", "importDense":
		clear := rapid.IntRange(0, 3).Draw(t, "clear") == 0
		bm := roaring.NewBitmap()
		var desc string
		if op == "importDense" {
			// a dense range: bitmap/run containers in storage
			start := rapid.SampledFrom([]uint64{0, 60000, 65536, 131000}).Draw(t, "start")
			n := rapid.SampledFrom([]uint64{300, 5000, 70000}).Draw(t, "len")
			step := rapid.SampledFrom([]uint64{1, 2}).Draw(t, "stride")
			for v := start; v < start+n && v < ShardWidth; v += step {
				bm.DirectAdd(row*ShardWidth + v)
				if clear {
					delete(ensure(row), c.shard*ShardWidth+v)
				} else {
					ensure(row)[c.shard*ShardWidth+v] = true
				}
			}
			c.touched(fr, row, false)
			desc = fmt.Sprintf("row %d offsets [%d,%d) stride %d", row, start, start+n, step)
			c.cls["write:importDense"] = true
		} else {
			n := rapid.IntRange(1, 5).Draw(t, "n")
			var parts []string
			for i := 0; i < n; i++ {
				r := rapid.SampledFrom(vc3Rows).Draw(t, "rrow")
				off := rapid.SampledFrom(vc3Offsets).Draw(t, "roff")
				bm.DirectAdd(r*ShardWidth + off)
				if clear {
					delete(ensure(r), c.shard*ShardWidth+off)
				} else {
					ensure(r)[c.shard*ShardWidth+off] = true
				}
				c.touched(fr, r, false)
				parts = append(parts, fmt.Sprintf("%d/%d", r, off))
			}
			desc = strings.Join(parts, " ")
			c.cls["write:importRoaring"] = true
		}
		var buf bytes.Buffer
		if _, err := bm.WriteTo(&buf); err != nil {
			t.Fatalf("encode: %v", err)
		}
		c.logf("%s.importRoaring(%s clear=%v)", fr.name, desc, clear)
		if err := fr.f.importRoaring(context.Background(), buf.Bytes(), clear); err != nil {
			c.fatalf("%s.importRoaring: %v", fr.name, err)
		}
	case "setRow":
		// source: a kept value, or a fresh row of the other fragment
		var src *Row
		var sm map[uint64]bool
		var sdesc string
		if len(c.kept) > 0 && rapid.IntRange(0, 3).Draw(t, "srcKept") != 0 {
			d := c.kept[rapid.IntRange(0, len(c.kept)-1).Draw(t, "src")]
			src, sm, sdesc = d.row, d.model, fmt.Sprintf("#%d", d.id)
			d.stored = true
			c.cls["setRow:src-kept"] = true
		} else {
			other := c.frags[rapid.IntRange(0, len(c.frags)-1).Draw(t, "other")]
			orow := rapid.SampledFrom(vc3Rows).Draw(t, "orow")
			src, sm, sdesc = other.f.row(orow), other.model[orow], fmt.Sprintf("%s.row(%d)", other.name, orow)
		}
		c.logf("%s.setRow(%s, %d)", fr.name, sdesc, row)
		if _, err := fr.f.setRow(src, row); err != nil {
			c.fatalf("%s.setRow(%s, %d): %v", fr.name, sdesc, row, err)
		}
		fr.model[row] = vc3copy(sm)
		c.touched(fr, row, false)
		c.cls["write:setRow"] = true
	case "clearRow":
		c.logf("%s.clearRow(%d)", fr.name, row)
		if _, err := fr.f.clearRow(row); err != nil {
			c.fatalf("%s.clearRow(%d): %v", fr.name, row, err)
		}
		delete(fr.model, row)
		c.touched(fr, row, false)
	case "snapshot":
		c.logf("%s.Snapshot()", fr.name)
		fr.f.awaitSnapshot()
		if err := fr.f.Snapshot(); err != nil {
			c.fatalf("%s.Snapshot(): %v", fr.name, err)
		}
		c.touched(fr, 0, true)
		c.cls["snapshot"] = true
	case "reopen":
		c.logf("%s.Close()+Open()", fr.name)
		if err := fr.f.Reopen(); err != nil {
			c.fatalf("%s.Reopen(): %v", fr.name, err)
		}
		c.touched(fr, 0, true)
		c.cls["reopen"] = true
	case "mutateKept":
		if len(c.kept) == 0 {
			return ""
		}
		d := c.kept[rapid.IntRange(0, len(c.kept)-1).Draw(t, "kept")]
		col := c.col("mcol")
		c.logf("#%d.SetBit(%d)", d.id, col)
		d.row.SetBit(col)
		d.model[col] = true
		c.cls["mutate:SetBit"] = true
		if d.stored {
			c.cls["mutate:SetBit-after-setRow(src)"] = true
		}
	case "mergeKept":
		if len(c.kept) < 2 {
			return ""
		}
		a := c.kept[rapid.IntRange(0, len(c.kept)-1).Draw(t, "ma")]
		b := c.kept[rapid.IntRange(0, len(c.kept)-1).Draw(t, "mb")]
		if a == b {
			return ""
		}
		c.logf("#%d.Merge(#%d)", a.id, b.id)
		a.row.Merge(b.row)
		for k := range b.model {
			a.model[k] = true
		}
		// Merge is a mutation of a; the statement does not list it as a way to derive a
		// value from b, so b is no longer observed (a may have adopted its segments).
		for i, x := range c.kept {
			if x == b {
				c.kept = append(c.kept[:i:i], c.kept[i+1:]...)
				break
			}
		}
		c.cls["mutate:Merge"] = true
	}
	// the harness owns the schedule: queued snapshots complete before the re-read
	for _, x := range c.frags {
		x.f.awaitSnapshot()
	}
	return op
}

// vc3clean closes the fragment, stops its snapshot worker and removes its files.
func vc3clean(f *fragment) {
	f.awaitSnapshot()
	f.Close()
	os.Remove(f.path)
	os.Remove(f.cachePath())
	if f.snapshotQueue != nil {
		close(f.snapshotQueue)
		f.snapshotQueue = nil
	}
}

func TestVerifC03_Fragment(t *testing.T) {
	defer vkit.Flush()
	defer debug.SetPanicOnFault(debug.SetPanicOnFault(true))
	rapid.Check(t, func(t *rapid.T) {
		debug.SetPanicOnFault(true)
		c := &vc3Case{t: t, cls: map[string]bool{}}
		c.shard = rapid.SampledFrom([]uint64{0, 1, 5}).Draw(t, "shard")
		cacheTypes := []string{CacheTypeRanked, CacheTypeNone, CacheTypeLRU}
		for i, n := range []string{"A", "B"} {
			f := mustOpenFragment("i", "f"+n, viewStandard, c.shard, cacheTypes[rapid.IntRange(0, 2).Draw(t, "cache")])
			f.MaxOpN = rapid.SampledFrom([]int{3, 20, 10000}).Draw(t, "maxOpN")
			fr := &vc3Frag{name: n, f: f, model: map[uint64]map[uint64]bool{}}
			c.frags = append(c.frags, fr)
			_ = i
		}
		defer func() {
			for _, fr := range c.frags {
				vc3clean(fr.f)
			}
		}()
		// a few writes first, so that early derived rows are not all empty
		for i, n := 0, rapid.IntRange(1, 4).Draw(t, "prefill"); i < n; i++ {
			c.stepFrom([]string{"setBit", "bulkImport", "importRoaring", "importDense", "importDense", "snapshot"})
		}
		nsteps := rapid.IntRange(3, vkit.Scale(30, 50)).Draw(t, "nsteps")
		for i := 0; i < nsteps; i++ {
			op := c.step()
			if op != "" {
				c.checkAll(c.log[len(c.log)-1])
			}
		}
		// close both sources, then re-read every kept value once more
		for _, fr := range c.frags {
			c.logf("%s.Close()+Open() (final)", fr.name)
			if err := fr.f.Reopen(); err != nil {
				c.fatalf("final reopen: %v", err)
			}
			c.touched(fr, 0, true)
		}
		c.checkAll("final close+reopen of both fragments")

		vc := vkit.NewCase().Key(strings.Join(c.log, "|"))
		nt := false
		for _, d := range c.kept {
			if d.shared && d.hit {
				nt = true
			}
		}
		var cl []string
		for k := range c.cls {
			cl = append(cl, k)
		}
		sort.Strings(cl)
		for _, k := range cl {
			vc.Class(k)
		}
		vc.ClassIf(len(c.kept) > 0, "has-kept-values")
		vc.NT(nt)
		smp := c.log
		if len(smp) > 12 {
			smp = smp[:12]
		}
		vc.Sample(map[string]interface{}{"history_prefix": smp, "steps": len(c.log), "kept": len(c.kept)})
		vc.Done()
	})
}
