package pilosa

// C09 — strace output parser and the inode-accurate file-system replayer.
//
// The child runs under
//   strace -f -y -xx -s 1000000 -e trace=<file syscalls> -o trace
// (-xx prints every string as \xNN, so a line never contains a stray quote or
// comma). The parser turns the trace into the ordered list of operations that
// change the data directory plus the positions of the child's ACK lines; the
// replayer applies the first k operations to an in-memory tree (files are
// inodes: an open descriptor keeps writing to its inode after a rename or an
// unlink) and materialises it in a directory. Anything the parser does not
// understand makes the run inconclusive, never a violation.

import (
	"bufio"
	"bytes"
	"fmt"
	"io/ioutil"
	"os"
	"path/filepath"
	"regexp"
	"sort"
	"strconv"
	"strings"
)

const vc09TraceSyscalls = "openat,open,creat,write,pwrite64,writev,pwritev,pwritev2,rename,renameat,renameat2," +
	"unlink,unlinkat,rmdir,ftruncate,truncate,mkdir,mkdirat,fsync,fdatasync,close," +
	"link,linkat,symlink,symlinkat,copy_file_range,sendfile,fallocate,dup,dup2,dup3"

type vc09Op struct {
	Kind  string // create trunc write pwrite rename unlink mkdir rmdir ftruncate
	Path  string // create/trunc/unlink/mkdir/rmdir/truncate; rename: old
	Path2 string // rename: new
	FD    int    // write/pwrite/ftruncate
	Data  []byte
	Off   int64 // pwrite offset / truncate length
	// bookkeeping, filled by the parser
	FDPath string // path the descriptor was opened with (for classification)
	Append bool
	Line   int
}

func (o *vc09Op) String() string {
	switch o.Kind {
	case "write", "pwrite":
		return fmt.Sprintf("%s(%s, %d bytes)", o.Kind, o.FDPath, len(o.Data))
	case "rename":
		return fmt.Sprintf("rename(%s -> %s)", o.Path, o.Path2)
	case "ftruncate":
		return fmt.Sprintf("ftruncate(%s, %d)", o.FDPath, o.Off)
	}
	return fmt.Sprintf("%s(%s)", o.Kind, o.Path)
}

type vc09Trace struct {
	Ops      []vc09Op
	AckAfter []int    // AckAfter[i] = number of ops completed when "ACK i" was written
	AckJSON  []string // payload of ACK i
	SchemaAt int      // ops completed when "SCHEMA" was written (-1 if never)
	Done     bool     // child printed DONE
	ChildErr string   // child printed ERR ...
}

type vc09Inconclusive struct{ msg string }

func (e *vc09Inconclusive) Error() string { return "inconclusive: " + e.msg }

func vc09Inconcl(format string, args ...interface{}) error {
	return &vc09Inconclusive{fmt.Sprintf(format, args...)}
}

var vc09RetRe = regexp.MustCompile(`\)\s+= `)

func vc09Unhex(s string) ([]byte, error) {
	// s consists of \xNN groups only
	out := make([]byte, 0, len(s)/4)
	for i := 0; i < len(s); {
		if i+4 > len(s) || s[i] != '\\' || s[i+1] != 'x' {
			return nil, fmt.Errorf("not a hex string at %d: %.20q", i, s[i:])
		}
		v, err := strconv.ParseUint(s[i+2:i+4], 16, 8)
		if err != nil {
			return nil, err
		}
		out = append(out, byte(v))
		i += 4
	}
	return out, nil
}

// vc09SplitArgs splits the argument list at top-level commas.
func vc09SplitArgs(s string) []string {
	var out []string
	depth := 0
	inQ := false
	start := 0
	for i := 0; i < len(s); i++ {
		c := s[i]
		switch {
		case c == '"':
			inQ = !inQ
		case inQ:
		case c == '<' || c == '{' || c == '[' || c == '(':
			depth++
		case c == '>' || c == '}' || c == ']' || c == ')':
			depth--
		case c == ',' && depth == 0:
			out = append(out, strings.TrimSpace(s[start:i]))
			start = i + 1
		}
	}
	if strings.TrimSpace(s[start:]) != "" {
		out = append(out, strings.TrimSpace(s[start:]))
	}
	return out
}

// vc09ParseFD parses `3<\x2f...>` / `AT_FDCWD<...>` / `3`.
func vc09ParseFD(a string) (fd int, path string, err error) {
	num := a
	if i := strings.IndexByte(a, '<'); i >= 0 {
		num = a[:i]
		if !strings.HasSuffix(a, ">") {
			return 0, "", fmt.Errorf("bad fd arg %.40q", a)
		}
		p, e := vc09Unhex(a[i+1 : len(a)-1])
		if e != nil {
			// sockets/pipes may be printed unescaped (e.g. TCP:[...]); not a file
			path = a[i+1 : len(a)-1]
		} else {
			path = string(p)
		}
	}
	if num == "AT_FDCWD" {
		return -100, path, nil
	}
	fd, err = strconv.Atoi(num)
	return fd, path, err
}

// vc09ParseStr parses a quoted hex string argument; truncated strings are an error.
func vc09ParseStr(a string) ([]byte, error) {
	if len(a) < 2 || a[0] != '"' {
		return nil, fmt.Errorf("not a string arg: %.40q", a)
	}
	if strings.HasSuffix(a, "...") {
		return nil, fmt.Errorf("string truncated by strace")
	}
	if a[len(a)-1] != '"' {
		return nil, fmt.Errorf("unterminated string arg: %.40q", a)
	}
	return vc09Unhex(a[1 : len(a)-1])
}

func vc09Under(dir, p string) bool {
	return p == dir || strings.HasPrefix(p, dir+"/")
}

type vc09FDInfo struct {
	path   string
	append bool
}

// vc09ParseTrace reads the strace file. dataDir must be absolute and clean.
func vc09ParseTrace(tracePath, dataDir string) (*vc09Trace, error) {
	f, err := os.Open(tracePath)
	if err != nil {
		return nil, vc09Inconcl("open trace: %v", err)
	}
	defer f.Close()
	tr := &vc09Trace{SchemaAt: -1}
	pending := map[string]string{} // pid -> unfinished text
	fds := map[int]*vc09FDInfo{}   // descriptors open on files under dataDir
	rd := bufio.NewReaderSize(f, 1<<20)
	lineNo := 0
	hexDir := ""
	for _, b := range []byte(dataDir) {
		hexDir += fmt.Sprintf("\\x%02x", b)
	}
	for {
		line, err := rd.ReadString('\n')
		if line == "" && err != nil {
			break
		}
		lineNo++
		line = strings.TrimRight(line, "\n")
		sp := strings.IndexByte(line, ' ')
		if sp <= 0 {
			return nil, vc09Inconcl("trace line %d: no pid: %.80q", lineNo, line)
		}
		pid := line[:sp]
		rest := strings.TrimLeft(line[sp:], " ")
		if strings.HasPrefix(rest, "+++") || strings.HasPrefix(rest, "---") {
			continue
		}
		if strings.HasSuffix(rest, "<unfinished ...>") {
			pending[pid] = strings.TrimSuffix(rest, "<unfinished ...>")
			if strings.HasPrefix(rest, "close(") {
				// The kernel releases the descriptor before strace reports the
				// return: another thread's open may already have returned the
				// same number when the "resumed" line appears. Apply the close now.
				a := strings.TrimSpace(strings.TrimSuffix(strings.TrimPrefix(rest, "close("), "<unfinished ...>"))
				if fd, _, err := vc09ParseFD(a); err == nil {
					if _, ok := fds[fd]; ok {
						delete(fds, fd)
						tr.Ops = append(tr.Ops, vc09Op{Kind: "unbind", FD: fd, Line: lineNo})
					}
				}
				pending[pid] = "\x00closed"
			}
			continue
		}
		if strings.HasPrefix(rest, "<... ") {
			i := strings.Index(rest, " resumed>")
			if i < 0 {
				return nil, vc09Inconcl("trace line %d: bad resume: %.80q", lineNo, rest)
			}
			p, ok := pending[pid]
			if !ok {
				return nil, vc09Inconcl("trace line %d: resume without start: %.80q", lineNo, rest)
			}
			delete(pending, pid)
			if p == "\x00closed" {
				continue
			}
			rest = p + rest[i+len(" resumed>"):]
		}
		// NAME(ARGS) = RET ...
		op := strings.IndexByte(rest, '(')
		eq, eqEnd := -1, -1
		if locs := vc09RetRe.FindAllStringIndex(rest, -1); len(locs) > 0 {
			eq, eqEnd = locs[len(locs)-1][0], locs[len(locs)-1][1]
		}
		if op <= 0 || eq < op {
			if strings.Contains(rest, hexDir) {
				return nil, vc09Inconcl("trace line %d mentions the data dir but does not parse: %.120q", lineNo, rest)
			}
			continue
		}
		name := rest[:op]
		args := vc09SplitArgs(rest[op+1 : eq])
		retStr := strings.TrimSpace(rest[eqEnd:])
		retTok := retStr
		if i := strings.IndexAny(retTok, " <"); i >= 0 {
			retTok = retTok[:i]
		}
		if retTok == "?" {
			// syscall cut by process exit
			if strings.Contains(rest, hexDir) {
				return nil, vc09Inconcl("trace line %d: syscall on the data dir cut by exit: %.120q", lineNo, rest)
			}
			continue
		}
		ret, err := strconv.ParseInt(retTok, 0, 64)
		if err != nil {
			return nil, vc09Inconcl("trace line %d: bad return %q", lineNo, retTok)
		}
		mentions := strings.Contains(rest, hexDir)
		bad := func(why string) error {
			return vc09Inconcl("trace line %d (%s): %s: %.160q", lineNo, name, why, rest)
		}
		resolve := func(dirArg, pathArg string) (string, error) {
			pb, err := vc09ParseStr(pathArg)
			if err != nil {
				return "", err
			}
			p := string(pb)
			if !filepath.IsAbs(p) {
				_, dp, err := vc09ParseFD(dirArg)
				if err != nil {
					return "", err
				}
				p = filepath.Join(dp, p)
			}
			return filepath.Clean(p), nil
		}
		switch name {
		case "write", "pwrite64":
			if len(args) < 3 {
				return nil, bad("args")
			}
			fd, fdPath, err := vc09ParseFD(args[0])
			if err != nil {
				return nil, bad(err.Error())
			}
			if fd == 1 || fd == 2 {
				// the child's protocol lines (stdout is a pipe / file of the parent)
				if _, tracked := fds[fd]; !tracked {
					data, err := vc09ParseStr(args[1])
					if err != nil {
						return nil, bad(err.Error())
					}
					for _, l := range strings.Split(strings.TrimRight(string(data), "\n"), "\n") {
						switch {
						case l == "SCHEMA":
							tr.SchemaAt = len(tr.Ops)
						case l == "DONE":
							tr.Done = true
						case strings.HasPrefix(l, "ERR "):
							tr.ChildErr = l
						case strings.HasPrefix(l, "ACK "):
							parts := strings.SplitN(l, " ", 3)
							i, err := strconv.Atoi(parts[1])
							if err != nil || i != len(tr.AckAfter) || len(parts) != 3 {
								return nil, bad("ACK out of order")
							}
							tr.AckAfter = append(tr.AckAfter, len(tr.Ops))
							tr.AckJSON = append(tr.AckJSON, parts[2])
						}
					}
					continue
				}
			}
			info, tracked := fds[fd]
			if !tracked {
				if vc09Under(dataDir, fdPath) {
					return nil, bad("write to an untracked descriptor of the data dir")
				}
				continue
			}
			if ret < 0 {
				continue
			}
			data, err := vc09ParseStr(args[1])
			if err != nil {
				return nil, bad(err.Error())
			}
			if int64(len(data)) < ret {
				return nil, bad("payload shorter than the return value")
			}
			data = data[:ret]
			o := vc09Op{Kind: "write", FD: fd, Data: data, FDPath: info.path, Append: info.append, Line: lineNo}
			if name == "pwrite64" {
				if len(args) < 4 {
					return nil, bad("args")
				}
				off, err := strconv.ParseInt(args[3], 0, 64)
				if err != nil {
					return nil, bad("offset")
				}
				o.Kind, o.Off = "pwrite", off
			}
			tr.Ops = append(tr.Ops, o)
		case "openat", "open", "creat":
			var p, flags string
			var err error
			switch name {
			case "openat":
				if len(args) < 3 {
					return nil, bad("args")
				}
				p, err = resolve(args[0], args[1])
				flags = args[2]
			case "open":
				p, err = resolve("AT_FDCWD", args[0])
				flags = args[1]
			default:
				p, err = resolve("AT_FDCWD", args[0])
				flags = "O_CREAT|O_WRONLY|O_TRUNC"
			}
			if err != nil {
				if mentions {
					return nil, bad(err.Error())
				}
				continue
			}
			if !vc09Under(dataDir, p) || ret < 0 {
				continue
			}
			if strings.Contains(flags, "O_DIRECTORY") || strings.Contains(flags, "O_PATH") {
				continue
			}
			has := func(f string) bool {
				for _, x := range strings.Split(flags, "|") {
					if x == f {
						return true
					}
				}
				return false
			}
			if has("O_CREAT") {
				tr.Ops = append(tr.Ops, vc09Op{Kind: "create", Path: p, Line: lineNo})
			}
			if has("O_TRUNC") {
				tr.Ops = append(tr.Ops, vc09Op{Kind: "trunc", Path: p, Line: lineNo})
			}
			fds[int(ret)] = &vc09FDInfo{path: p, append: has("O_APPEND")}
			// the replayer needs the descriptor binding even when the open changes nothing
			tr.Ops = append(tr.Ops, vc09Op{Kind: "bind", Path: p, FD: int(ret), Append: has("O_APPEND"), Line: lineNo})
		case "close":
			fd, _, err := vc09ParseFD(args[0])
			if err != nil {
				continue
			}
			if _, ok := fds[fd]; ok {
				delete(fds, fd)
				tr.Ops = append(tr.Ops, vc09Op{Kind: "unbind", FD: fd, Line: lineNo})
			}
		case "rename", "renameat", "renameat2":
			var a, b string
			var err, err2 error
			if name == "rename" {
				a, err = resolve("AT_FDCWD", args[0])
				b, err2 = resolve("AT_FDCWD", args[1])
			} else {
				if len(args) < 4 {
					return nil, bad("args")
				}
				a, err = resolve(args[0], args[1])
				b, err2 = resolve(args[2], args[3])
			}
			if err != nil || err2 != nil {
				if mentions {
					return nil, bad("paths")
				}
				continue
			}
			ua, ub := vc09Under(dataDir, a), vc09Under(dataDir, b)
			if !ua && !ub {
				continue
			}
			if ua != ub {
				return nil, bad("rename across the data dir boundary")
			}
			if name == "renameat2" && len(args) >= 5 && args[4] != "0" {
				return nil, bad("renameat2 flags")
			}
			if ret == 0 {
				tr.Ops = append(tr.Ops, vc09Op{Kind: "rename", Path: a, Path2: b, Line: lineNo})
			}
		case "unlink", "unlinkat", "rmdir":
			var p string
			var err error
			kind := "unlink"
			if name == "unlinkat" {
				if len(args) < 3 {
					return nil, bad("args")
				}
				p, err = resolve(args[0], args[1])
				if strings.Contains(args[2], "AT_REMOVEDIR") {
					kind = "rmdir"
				}
			} else {
				p, err = resolve("AT_FDCWD", args[0])
				if name == "rmdir" {
					kind = "rmdir"
				}
			}
			if err != nil {
				if mentions {
					return nil, bad(err.Error())
				}
				continue
			}
			if vc09Under(dataDir, p) && ret == 0 {
				tr.Ops = append(tr.Ops, vc09Op{Kind: kind, Path: p, Line: lineNo})
			}
		case "mkdir", "mkdirat":
			var p string
			var err error
			if name == "mkdirat" {
				p, err = resolve(args[0], args[1])
			} else {
				p, err = resolve("AT_FDCWD", args[0])
			}
			if err != nil {
				if mentions {
					return nil, bad(err.Error())
				}
				continue
			}
			if vc09Under(dataDir, p) && ret == 0 {
				tr.Ops = append(tr.Ops, vc09Op{Kind: "mkdir", Path: p, Line: lineNo})
			}
		case "ftruncate":
			fd, fdPath, err := vc09ParseFD(args[0])
			if err != nil {
				return nil, bad(err.Error())
			}
			info, tracked := fds[fd]
			if !tracked {
				if vc09Under(dataDir, fdPath) {
					return nil, bad("ftruncate of an untracked descriptor of the data dir")
				}
				continue
			}
			n, err := strconv.ParseInt(args[1], 0, 64)
			if err != nil {
				return nil, bad("length")
			}
			if ret == 0 {
				tr.Ops = append(tr.Ops, vc09Op{Kind: "ftruncate", FD: fd, Off: n, FDPath: info.path, Line: lineNo})
			}
		case "truncate":
			p, err := resolve("AT_FDCWD", args[0])
			if err != nil {
				if mentions {
					return nil, bad(err.Error())
				}
				continue
			}
			if vc09Under(dataDir, p) {
				n, err := strconv.ParseInt(args[1], 0, 64)
				if err != nil {
					return nil, bad("length")
				}
				if ret == 0 {
					tr.Ops = append(tr.Ops, vc09Op{Kind: "truncate", Path: p, Off: n, Line: lineNo})
				}
			}
		case "fsync", "fdatasync":
			// no effect in the process-kill model
		default:
			// writev, link, symlink, copy_file_range, sendfile, fallocate, dup*: not
			// expected on the data dir; if one touches it the replay would be wrong.
			if mentions {
				return nil, bad("unsupported syscall on the data dir")
			}
			if name == "dup" || name == "dup2" || name == "dup3" {
				if fd, _, err := vc09ParseFD(args[0]); err == nil {
					if _, ok := fds[fd]; ok {
						return nil, bad("dup of a data-dir descriptor")
					}
				}
			}
		}
	}
	for pid, p := range pending {
		if strings.Contains(p, hexDir) {
			return nil, vc09Inconcl("pid %s: unfinished syscall on the data dir at exit: %.120q", pid, p)
		}
	}
	return tr, nil
}

// ---------------------------------------------------------------------------
// replayer

type vc09Inode struct{ data []byte }

type vc09OpenFile struct {
	ino    *vc09Inode
	off    int64
	append bool
}

type vc09FS struct {
	root  string
	files map[string]*vc09Inode
	dirs  map[string]bool
	fds   map[int]*vc09OpenFile
}

func vc09NewFS(root string) *vc09FS {
	return &vc09FS{root: root, files: map[string]*vc09Inode{}, dirs: map[string]bool{root: true}, fds: map[int]*vc09OpenFile{}}
}

// apply executes one operation; it reports whether the directory tree changed.
func (fs *vc09FS) apply(o *vc09Op) (changed bool, err error) {
	switch o.Kind {
	case "create":
		if _, ok := fs.files[o.Path]; ok {
			return false, nil
		}
		if !fs.dirs[filepath.Dir(o.Path)] {
			return false, fmt.Errorf("create %s: parent directory missing", o.Path)
		}
		fs.files[o.Path] = &vc09Inode{}
		return true, nil
	case "trunc":
		ino := fs.files[o.Path]
		if ino == nil {
			return false, fmt.Errorf("trunc %s: no such file", o.Path)
		}
		ch := len(ino.data) != 0
		ino.data = nil
		return ch, nil
	case "bind":
		if fs.dirs[o.Path] {
			return false, nil // a directory opened for reading
		}
		ino := fs.files[o.Path]
		if ino == nil {
			return false, fmt.Errorf("open %s: no such file", o.Path)
		}
		fs.fds[o.FD] = &vc09OpenFile{ino: ino, append: o.Append}
		return false, nil
	case "unbind":
		delete(fs.fds, o.FD)
		return false, nil
	case "write", "pwrite":
		of := fs.fds[o.FD]
		if of == nil {
			return false, fmt.Errorf("write to unknown fd %d (%s)", o.FD, o.FDPath)
		}
		off := of.off
		if o.Kind == "pwrite" {
			off = o.Off
		} else if of.append {
			off = int64(len(of.ino.data))
		}
		end := off + int64(len(o.Data))
		if int64(len(of.ino.data)) < end {
			nd := make([]byte, end)
			copy(nd, of.ino.data)
			of.ino.data = nd
		} else {
			// copy on write: dumps of earlier states may still be referenced
			of.ino.data = append([]byte(nil), of.ino.data...)
		}
		copy(of.ino.data[off:], o.Data)
		if o.Kind == "write" {
			of.off = end
		}
		return len(o.Data) > 0, nil
	case "ftruncate", "truncate":
		var ino *vc09Inode
		if o.Kind == "ftruncate" {
			of := fs.fds[o.FD]
			if of == nil {
				return false, fmt.Errorf("ftruncate of unknown fd %d", o.FD)
			}
			ino = of.ino
		} else if ino = fs.files[o.Path]; ino == nil {
			return false, fmt.Errorf("truncate %s: no such file", o.Path)
		}
		if int64(len(ino.data)) == o.Off {
			return false, nil
		}
		nd := make([]byte, o.Off)
		copy(nd, ino.data)
		ino.data = nd
		return true, nil
	case "rename":
		if ino, ok := fs.files[o.Path]; ok {
			delete(fs.files, o.Path)
			fs.files[o.Path2] = ino
			return true, nil
		}
		if fs.dirs[o.Path] {
			for p := range fs.dirs {
				if vc09Under(o.Path, p) {
					delete(fs.dirs, p)
					fs.dirs[o.Path2+p[len(o.Path):]] = true
				}
			}
			for p, ino := range fs.files {
				if vc09Under(o.Path, p) {
					delete(fs.files, p)
					fs.files[o.Path2+p[len(o.Path):]] = ino
				}
			}
			return true, nil
		}
		return false, fmt.Errorf("rename %s: no such file", o.Path)
	case "unlink":
		if _, ok := fs.files[o.Path]; !ok {
			return false, fmt.Errorf("unlink %s: no such file", o.Path)
		}
		delete(fs.files, o.Path)
		return true, nil
	case "mkdir":
		if fs.dirs[o.Path] {
			return false, fmt.Errorf("mkdir %s: exists", o.Path)
		}
		fs.dirs[o.Path] = true
		return true, nil
	case "rmdir":
		if !fs.dirs[o.Path] {
			return false, fmt.Errorf("rmdir %s: no such directory", o.Path)
		}
		delete(fs.dirs, o.Path)
		return true, nil
	}
	return false, fmt.Errorf("unknown op kind %q", o.Kind)
}

// materialise writes the current tree below dst (dst replaces fs.root).
func (fs *vc09FS) materialise(dst string) error {
	var dirs []string
	for d := range fs.dirs {
		dirs = append(dirs, d)
	}
	sort.Strings(dirs)
	for _, d := range dirs {
		if err := os.MkdirAll(dst+d[len(fs.root):], 0777); err != nil {
			return err
		}
	}
	for p, ino := range fs.files {
		if err := ioutil.WriteFile(dst+p[len(fs.root):], ino.data, 0666); err != nil {
			return err
		}
	}
	return nil
}

// equalsDir compares the tree with a real directory byte for byte.
func (fs *vc09FS) equalsDir(real string) error {
	seenF := map[string]bool{}
	seenD := map[string]bool{}
	err := filepath.Walk(real, func(p string, fi os.FileInfo, err error) error {
		if err != nil {
			return err
		}
		mp := fs.root + p[len(real):]
		if fi.IsDir() {
			seenD[mp] = true
			if !fs.dirs[mp] {
				return fmt.Errorf("directory %s exists on disk but not in the replay", mp)
			}
			return nil
		}
		seenF[mp] = true
		ino := fs.files[mp]
		if ino == nil {
			return fmt.Errorf("file %s exists on disk but not in the replay", mp)
		}
		b, err := ioutil.ReadFile(p)
		if err != nil {
			return err
		}
		if !bytes.Equal(b, ino.data) {
			return fmt.Errorf("file %s differs: disk %d bytes, replay %d bytes", mp, len(b), len(ino.data))
		}
		return nil
	})
	if err != nil {
		return err
	}
	for p := range fs.files {
		if !seenF[p] {
			return fmt.Errorf("file %s exists in the replay but not on disk", p)
		}
	}
	for p := range fs.dirs {
		if !seenD[p] {
			return fmt.Errorf("directory %s exists in the replay but not on disk", p)
		}
	}
	return nil
}
