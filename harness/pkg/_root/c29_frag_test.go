package pilosa

// C29 (fragment level) — concurrent operations on one fragment are race-free
// and linearizable.
//
// rapid generates a workload: 2-8 client goroutines x 10-40 operations over a
// universe of 2 rows x 4 columns (the sequential state is one byte), with
// generated pre-delays and GOMAXPROCS. The unit is built with -race, so a data
// race fails the test binary. Every call is recorded with invocation/response
// stamps from one atomic counter and the history is checked with porcupine
// against the sequential bit-set model: writes return their changed flag, reads
// the exact row content. Two final reads (after all clients are done) pin the
// final state, and the fragment is closed and reopened to compare the persisted
// state with it.

import (
	"bytes"
	"context"
	"fmt"
	"io/ioutil"
	"os"
	"path/filepath"
	"runtime"
	"sort"
	"strings"
	"sync"
	"sync/atomic"
	"syscall"
	"testing"
	"time"

	"github.com/anishathalye/porcupine"
	"github.com/pilosa/pilosa/internal/vkit"
	"github.com/pilosa/pilosa/logger"
	"github.com/pilosa/pilosa/roaring"
	"pgregory.net/rapid"
)

const (
	vc29Rows = 2
	vc29Cols = 4
)

// vc29Op is one generated operation.
type vc29Op struct {
	Kind  string // setBit clearBit import importClear roaring roaringClear setRow clearRow row rowsWithCol top topIDs blocks snapshot flushCache maxRow minRow
	Row   uint64
	Col   uint64
	Mask  uint8 // import/roaring: bits (row*4+col) to set/clear; setRow: columns of the new row (low 4 bits)
	Delay int   // 0..3: Gosched count; 4..: sleep (Delay-3)*40us
}

func (o vc29Op) String() string {
	switch o.Kind {
	case "setBit", "clearBit":
		return fmt.Sprintf("%s(r%d,c%d)", o.Kind, o.Row, o.Col)
	case "import", "importClear", "roaring", "roaringClear":
		return fmt.Sprintf("%s(%08b)", o.Kind, o.Mask)
	case "setRow":
		return fmt.Sprintf("setRow(r%d:=%04b)", o.Row, o.Mask&0xF)
	case "clearRow", "row", "rowCount":
		return fmt.Sprintf("%s(r%d)", o.Kind, o.Row)
	case "rowsWithCol":
		return fmt.Sprintf("rowsWithCol(c%d)", o.Col)
	}
	return o.Kind + "()"
}

type vc29Out struct {
	Changed bool
	Mask    uint8
	Row     uint64 // minRow/maxRow: row id; rowCount: count
	Cnt     uint64 // minRow/maxRow: count
	Sum     string // blocks: "" (no block) or the hex checksum of block 0
}

type vc29Rec struct {
	Client       int
	Op           vc29Op
	Out          vc29Out
	Call, Return int64
}

func vc29Bit(row, col uint64) uint8 { return 1 << (row*vc29Cols + col) }
func vc29RowMask(row uint64) uint8  { return 0xF << (row * vc29Cols) }

// vc29Step is the sequential specification.
func vc29Step(state, input, output interface{}) (bool, interface{}) {
	s := state.(uint8)
	op := input.(vc29Op)
	out := output.(vc29Out)
	switch op.Kind {
	case "setBit":
		b := vc29Bit(op.Row, op.Col)
		return out.Changed == (s&b == 0), s | b
	case "clearBit":
		b := vc29Bit(op.Row, op.Col)
		return out.Changed == (s&b != 0), s &^ b
	case "import", "roaring":
		return true, s | op.Mask
	case "importClear", "roaringClear":
		return true, s &^ op.Mask
	case "setRow":
		return out.Changed, (s &^ vc29RowMask(op.Row)) | (op.Mask&0xF)<<(op.Row*vc29Cols)
	case "clearRow":
		// a row that holds bits must report changed; an empty row may report
		// either (an emptied container that is still present counts as a change)
		ok := out.Changed || s&vc29RowMask(op.Row) == 0
		return ok, s &^ vc29RowMask(op.Row)
	case "row":
		return out.Mask == (s>>(op.Row*vc29Cols))&0xF, s
	case "rowsWithCol":
		var want uint8
		for r := uint64(0); r < vc29Rows; r++ {
			if s&vc29Bit(r, op.Col) != 0 {
				want |= 1 << r
			}
		}
		return out.Mask == want, s
	case "rowCount": // one row of top(ids=...): every row's count is read on its own
		n := uint64(0)
		for c := uint64(0); c < vc29Cols; c++ {
			if s&vc29Bit(op.Row, c) != 0 {
				n++
			}
		}
		return out.Row == n, s
	case "maxRow", "minRow":
		if s == 0 {
			return out.Row == 0 && out.Cnt == 0, s
		}
		want := uint64(0)
		if (op.Kind == "maxRow" && s&vc29RowMask(1) != 0) || (op.Kind == "minRow" && s&vc29RowMask(0) == 0) {
			want = 1
		}
		return out.Row == want && out.Cnt == 1, s
	case "blocks":
		return out.Sum == vc29Checksum(s), s
	}
	// top snapshot flushCache: no constrained result (the ranked cache is refreshed every 10 s by design)
	return true, s
}

var vc29ChecksumMemo [256]string
var vc29ChecksumOnce sync.Once

// vc29Checksum is the checksum Blocks() must report for block 0 in state s:
// the block hash over the set positions in ascending order ("" = no block).
func vc29Checksum(s uint8) string {
	vc29ChecksumOnce.Do(func() {
		for st := 1; st < 256; st++ {
			h := newBlockHasher()
			for r := uint64(0); r < vc29Rows; r++ {
				for c := uint64(0); c < vc29Cols; c++ {
					if uint8(st)&vc29Bit(r, c) != 0 {
						h.WriteValue(r*ShardWidth + c)
					}
				}
			}
			vc29ChecksumMemo[st] = fmt.Sprintf("%x", h.Sum())
		}
	})
	return vc29ChecksumMemo[s]
}

// vc29StepMutex is the sequential specification of a mutex/bool fragment: a
// column holds at most one row, the row of the last write.
func vc29StepMutex(state, input, output interface{}) (bool, interface{}) {
	s := state.(uint8)
	op := input.(vc29Op)
	out := output.(vc29Out)
	colMask := func(c uint64) uint8 { return vc29Bit(0, c) | vc29Bit(1, c) }
	switch op.Kind {
	case "setBit":
		b := vc29Bit(op.Row, op.Col)
		return out.Changed == (s&b == 0), (s &^ colMask(op.Col)) | b
	case "import":
		ns := s
		for c := uint64(0); c < vc29Cols; c++ {
			// entries are sent row 0 first, then row 1: the last entry of a column wins
			switch {
			case op.Mask&vc29Bit(1, c) != 0:
				ns = (ns &^ colMask(c)) | vc29Bit(1, c)
			case op.Mask&vc29Bit(0, c) != 0:
				ns = (ns &^ colMask(c)) | vc29Bit(0, c)
			}
		}
		return true, ns
	}
	return vc29Step(state, input, output)
}

func vc29ModelFor(ftype string) porcupine.Model {
	m := vc29Model
	if ftype == FieldTypeMutex || ftype == FieldTypeBool {
		m.Step = vc29StepMutex
	}
	return m
}

var vc29Model = porcupine.Model{
	Init:  func() interface{} { return uint8(0) },
	Step:  vc29Step,
	Equal: func(a, b interface{}) bool { return a.(uint8) == b.(uint8) },
	DescribeOperation: func(in, out interface{}) string {
		return fmt.Sprintf("%s -> %+v", in.(vc29Op).String(), out.(vc29Out))
	},
	DescribeState: func(s interface{}) string { return fmt.Sprintf("%08b", s.(uint8)) },
}

func vc29Die(format string, args ...interface{}) {
	fmt.Printf("INCONCLUSIVE (C29): "+format+"\n", args...)
	vkit.Flush()
	os.Stdout.Sync()
	syscall.Kill(os.Getpid(), syscall.SIGKILL)
	select {}
}

func vc29WorkDir() string {
	base := os.Getenv("VERIF_RUNDIR")
	if base == "" {
		base = os.TempDir()
	}
	d, err := ioutil.TempDir(base, "c29-")
	if err != nil {
		vc29Die("temp dir: %v", err)
	}
	return d
}

func vc29OpenFragment(path string, shard uint64, maxOpN int, q chan *fragment, ftype ...string) (*fragment, error) {
	f := newFragment(path, "i", "f", viewStandard, shard, 0)
	f.CacheType = CacheTypeRanked
	if len(ftype) > 1 && ftype[1] != "" {
		f.CacheType = ftype[1] // ranked, lru or none
	}
	if len(ftype) > 0 {
		switch ftype[0] {
		case FieldTypeMutex:
			f.mutexVector = newRowsVector(f)
		case FieldTypeBool:
			f.mutexVector = newBoolVector(f)
		}
	}
	f.RowAttrStore = newNopAttrStore("")
	f.snapshotQueue = q
	f.Logger = logger.NopLogger
	if maxOpN > 0 {
		f.MaxOpN = maxOpN
	}
	return f, f.Open()
}

func vc29Delay(d int) {
	if d <= 3 {
		for i := 0; i < d; i++ {
			runtime.Gosched()
		}
		return
	}
	time.Sleep(time.Duration(d-3) * 40 * time.Microsecond)
}

// vc29Exec runs one operation on f (columns are relative to the shard).
func vc29Exec(f *fragment, op vc29Op) (vc29Out, error) {
	base := f.shard * ShardWidth
	var out vc29Out
	pairs := func() (rows, cols []uint64) {
		for r := uint64(0); r < vc29Rows; r++ {
			for c := uint64(0); c < vc29Cols; c++ {
				if op.Mask&vc29Bit(r, c) != 0 {
					rows = append(rows, r)
					cols = append(cols, base+c)
				}
			}
		}
		return
	}
	switch op.Kind {
	case "setBit":
		ch, err := f.setBit(op.Row, base+op.Col)
		out.Changed = ch
		return out, err
	case "clearBit":
		ch, err := f.clearBit(op.Row, base+op.Col)
		out.Changed = ch
		return out, err
	case "import", "importClear":
		rows, cols := pairs()
		return out, f.bulkImport(rows, cols, &ImportOptions{Clear: op.Kind == "importClear"})
	case "roaring", "roaringClear":
		bm := roaring.NewBitmap()
		rows, cols := pairs()
		for i := range rows {
			bm.DirectAdd(rows[i]*ShardWidth + cols[i]%ShardWidth)
		}
		var buf bytes.Buffer
		if _, err := bm.WriteTo(&buf); err != nil {
			return out, err
		}
		return out, f.importRoaring(context.Background(), buf.Bytes(), op.Kind == "roaringClear")
	case "setRow":
		var cols []uint64
		for c := uint64(0); c < vc29Cols; c++ {
			if op.Mask&(1<<c) != 0 {
				cols = append(cols, base+c)
			}
		}
		ch, err := f.setRow(NewRow(cols...), op.Row)
		out.Changed = ch
		return out, err
	case "clearRow":
		ch, err := f.clearRow(op.Row)
		out.Changed = ch
		return out, err
	case "row":
		for _, c := range f.row(op.Row).Columns() {
			if c < base || c >= base+vc29Cols {
				return out, fmt.Errorf("row(%d) returned column %d outside the universe", op.Row, c)
			}
			out.Mask |= 1 << (c - base)
		}
		return out, nil
	case "rowsWithCol":
		for _, r := range f.rows(0, filterColumn(base+op.Col)) {
			if r >= vc29Rows {
				return out, fmt.Errorf("rows returned row %d outside the universe", r)
			}
			out.Mask |= 1 << r
		}
		return out, nil
	case "top":
		_, err := f.top(topOptions{N: 2})
		return out, err
	case "topIDs":
		pairs, err := f.top(topOptions{RowIDs: []uint64{0, 1}})
		for _, p := range pairs {
			if p.ID >= vc29Rows || p.Count > vc29Cols {
				return out, fmt.Errorf("top(ids=[0,1]) returned %+v", pairs)
			}
			// counts packed per row: 3 bits each
			out.Row |= p.Count << (3 * p.ID)
		}
		return out, err
	case "blocks":
		for _, b := range f.Blocks() {
			if b.ID != 0 {
				return out, fmt.Errorf("Blocks returned block %d", b.ID)
			}
			out.Sum = fmt.Sprintf("%x", b.Checksum)
		}
		return out, nil
	case "snapshot":
		return out, f.Snapshot()
	case "flushCache":
		return out, f.FlushCache()
	case "maxRow":
		out.Row, out.Cnt = f.maxRow(nil)
		return out, nil
	case "minRow":
		out.Row, out.Cnt = f.minRow(nil)
		return out, nil
	}
	return out, fmt.Errorf("unknown op %q", op.Kind)
}

var vc29Kinds = []string{
	"setBit", "setBit", "setBit", "clearBit", "clearBit", "import", "importClear", "roaring", "roaringClear",
	"setRow", "clearRow", "row", "row", "row", "rowsWithCol", "top", "topIDs", "blocks", "snapshot", "flushCache", "maxRow", "minRow",
}

func vc29GenOp(t *rapid.T) vc29Op {
	op := vc29Op{Kind: rapid.SampledFrom(vc29Kinds).Draw(t, "kind")}
	op.Row = uint64(rapid.IntRange(0, vc29Rows-1).Draw(t, "row"))
	op.Col = uint64(rapid.IntRange(0, vc29Cols-1).Draw(t, "col"))
	switch op.Kind {
	case "import", "importClear", "roaring", "roaringClear":
		op.Mask = uint8(rapid.IntRange(1, 255).Draw(t, "mask"))
	case "setRow":
		op.Mask = uint8(rapid.IntRange(0, 15).Draw(t, "cols"))
	}
	op.Delay = rapid.SampledFrom([]int{0, 0, 0, 1, 2, 3, 4, 5, 8}).Draw(t, "delay")
	return op
}

func vc29IsWrite(k string) bool {
	switch k {
	case "setBit", "clearBit", "import", "importClear", "roaring", "roaringClear", "setRow", "clearRow":
		return true
	}
	return false
}

func vc29FormatHistory(recs []vc29Rec) string {
	sort.Slice(recs, func(i, j int) bool { return recs[i].Call < recs[j].Call })
	var b strings.Builder
	for _, r := range recs {
		fmt.Fprintf(&b, "  [%d,%d] client %d: %s -> changed=%v mask=%04b row/count=%d/%d sum=%s\n", r.Call, r.Return, r.Client, r.Op.String(), r.Out.Changed, r.Out.Mask, r.Out.Row, r.Out.Cnt, r.Out.Sum)
	}
	return b.String()
}

// vc29Overlap reports whether two operations that touch the same row overlap in
// time and at least one of them is a write (the non-trivial rule).
func vc29Overlap(recs []vc29Rec) bool {
	for i := range recs {
		for j := i + 1; j < len(recs); j++ {
			a, b := recs[i], recs[j]
			if a.Client == b.Client || a.Return < b.Call || b.Return < a.Call {
				continue
			}
			if vc29IsWrite(a.Op.Kind) || vc29IsWrite(b.Op.Kind) {
				return true
			}
		}
	}
	return false
}

func TestVerifC29_Fragment(t *testing.T) {
	defer vkit.Flush()
	work := vc29WorkDir()
	defer os.RemoveAll(work)
	defer runtime.GOMAXPROCS(runtime.GOMAXPROCS(0))
	var seq int
	rapid.Check(t, func(t *rapid.T) {
		seq++
		nClients := rapid.IntRange(2, 8).Draw(t, "clients")
		procs := rapid.SampledFrom([]int{1, 2, 4, 16}).Draw(t, "gomaxprocs")
		maxOpN := rapid.SampledFrom([]int{2, 5, 20, 0}).Draw(t, "maxOpN")
		nFrags := rapid.IntRange(1, 2).Draw(t, "fragments")
		ftype := rapid.SampledFrom([]string{FieldTypeSet, FieldTypeSet, FieldTypeMutex, FieldTypeBool}).Draw(t, "fragmentType")
		cacheType := rapid.SampledFrom([]string{CacheTypeRanked, CacheTypeLRU, CacheTypeLRU, CacheTypeNone}).Draw(t, "cacheType")
		type clientOp struct {
			frag int
			op   vc29Op
		}
		plans := make([][]clientOp, nClients)
		for c := range plans {
			n := rapid.IntRange(10, 40).Draw(t, "nOps")
			for i := 0; i < n; i++ {
				op := vc29GenOp(t)
				if ftype != FieldTypeSet {
					// roaring imports and row stores are refused for mutex/bool fields by the API
					switch op.Kind {
					case "roaring":
						op.Kind = "import"
					case "roaringClear":
						op.Kind = "importClear"
					case "setRow":
						op.Kind = "setBit"
					}
				}
				plans[c] = append(plans[c], clientOp{rapid.IntRange(0, nFrags-1).Draw(t, "frag"), op})
			}
		}
		var key strings.Builder
		fmt.Fprintf(&key, "p%d m%d f%d %s %s", procs, maxOpN, nFrags, ftype, cacheType)
		for c := range plans {
			fmt.Fprintf(&key, "|")
			for _, co := range plans[c] {
				fmt.Fprintf(&key, "%d%s/%d ", co.frag, co.op.String(), co.op.Delay)
			}
		}
		cs := vkit.NewCase().Key(key.String())
		defer cs.Done()

		runtime.GOMAXPROCS(procs)
		q := newSnapshotQueue(10, 2, logger.NopLogger)
		defer close(q)
		dir := filepath.Join(work, fmt.Sprintf("w%d", seq))
		if err := os.MkdirAll(dir, 0777); err != nil {
			vc29Die("%v", err)
		}
		defer os.RemoveAll(dir)
		frags := make([]*fragment, nFrags)
		for i := range frags {
			f, err := vc29OpenFragment(filepath.Join(dir, fmt.Sprint(i)), uint64(i), maxOpN, q, ftype, cacheType)
			if err != nil {
				t.Fatalf("open fragment: %v", err)
			}
			frags[i] = f
		}
		var clock int64
		recs := make([][][]vc29Rec, nFrags) // per fragment, per client
		for i := range recs {
			recs[i] = make([][]vc29Rec, nClients+1)
		}
		errs := make([]error, nClients)
		var wg sync.WaitGroup
		start := make(chan struct{})
		for c := 0; c < nClients; c++ {
			wg.Add(1)
			go func(c int) {
				defer wg.Done()
				<-start
				for _, co := range plans[c] {
					vc29Delay(co.op.Delay)
					call := atomic.AddInt64(&clock, 1)
					out, err := vc29Exec(frags[co.frag], co.op)
					ret := atomic.AddInt64(&clock, 1)
					if err != nil {
						errs[c] = fmt.Errorf("%s: %v", co.op.String(), err)
						return
					}
					if co.op.Kind == "topIDs" && ftype != FieldTypeSet && vkit.Open("DC6") {
						// open finding DC6: on mutex/bool fragments top(ids) can see a
						// moving Set() half-way; its counts are not constrained there
						vkit.Excluded("DC6")
						continue
					}
					if co.op.Kind == "topIDs" && cacheType == CacheTypeNone {
						continue // without a cache top() reports nothing, by design
					}
					if co.op.Kind == "topIDs" {
						// each row's count is looked up separately: two reads in one interval
						for r := uint64(0); r < vc29Rows; r++ {
							recs[co.frag][c] = append(recs[co.frag][c], vc29Rec{Client: c, Op: vc29Op{Kind: "rowCount", Row: r},
								Out: vc29Out{Row: (out.Row >> (3 * r)) & 7}, Call: call, Return: ret})
						}
						continue
					}
					recs[co.frag][c] = append(recs[co.frag][c], vc29Rec{Client: c, Op: co.op, Out: out, Call: call, Return: ret})
				}
			}(c)
		}
		done := make(chan struct{})
		go func() { wg.Wait(); close(done) }()
		close(start)
		vc29Await(done, &clock, 180*time.Second, "TestVerifC29_Fragment", key.String())
		for c, err := range errs {
			if err != nil {
				t.Fatalf("C29 violated: client %d: a valid operation on the %s fragment failed: %v", c, ftype, err)
			}
		}
		nontrivial := false
		for fi, f := range frags {
			var all []vc29Rec
			for _, rs := range recs[fi] {
				all = append(all, rs...)
			}
			// the final state, read after every client returned
			var final uint8
			for r := uint64(0); r < vc29Rows; r++ {
				op := vc29Op{Kind: "row", Row: r}
				call := atomic.AddInt64(&clock, 1)
				out, err := vc29Exec(f, op)
				ret := atomic.AddInt64(&clock, 1)
				if err != nil {
					t.Fatalf("final read: %v", err)
				}
				final |= out.Mask << (r * vc29Cols)
				all = append(all, vc29Rec{Client: nClients, Op: op, Out: out, Call: call, Return: ret})
			}
			if ftype != FieldTypeSet && final&0xF&(final>>vc29Cols) != 0 {
				t.Fatalf("C29 violated: %s fragment %d ends with a column that holds two rows: row 0 = %04b, row 1 = %04b\n%s", ftype, fi, final&0xF, final>>vc29Cols, vc29FormatHistory(all))
			}
			if vc29Overlap(all) {
				nontrivial = true
			}
			ops := make([]porcupine.Operation, len(all))
			for i, r := range all {
				ops[i] = porcupine.Operation{ClientId: r.Client, Input: r.Op, Call: r.Call, Output: r.Out, Return: r.Return}
			}
			switch res := porcupine.CheckOperationsTimeout(vc29ModelFor(ftype), ops, 60*time.Second); res {
			case porcupine.Illegal:
				t.Fatalf("C29 violated: history of %s fragment %d is not linearizable (GOMAXPROCS=%d, MaxOpN=%d; [call,return] stamps from one atomic counter; the last two reads ran after all clients finished)\n%s", ftype, fi, procs, maxOpN, vc29FormatHistory(all))
			case porcupine.Unknown:
				vkit.Count("porcupine_timeout", 1)
			}
			// the persisted state must be the final state
			if err := f.Close(); err != nil {
				t.Fatalf("close fragment %d: %v", fi, err)
			}
			f2, err := vc29OpenFragment(f.path, f.shard, 0, nil, ftype, cacheType)
			if err != nil {
				t.Fatalf("C29 violated: fragment %d cannot be reopened after the workload: %v\n%s", fi, err, vc29FormatHistory(all))
			}
			var disk uint8
			for _, p := range f2.storage.Slice() {
				r, c := p/ShardWidth, p%ShardWidth
				if r >= vc29Rows || c >= vc29Cols {
					t.Fatalf("C29 violated: reopened fragment %d holds position r%d:c%d outside the universe", fi, r, c)
				}
				disk |= vc29Bit(r, c)
			}
			f2.Close()
			if disk != final {
				t.Fatalf("C29 violated: fragment %d holds %08b in memory after the workload but %08b after close and reopen\n%s", fi, final, disk, vc29FormatHistory(all))
			}
		}
		cs.Class(fmt.Sprintf("clients:%d", nClients)).Class(fmt.Sprintf("gomaxprocs:%d", procs)).Class(fmt.Sprintf("fragments:%d", nFrags)).Class("type:" + ftype).Class("cache:" + cacheType)
		cs.NT(nontrivial)
		cs.Sample(map[string]interface{}{"clients": nClients, "gomaxprocs": procs, "maxOpN": maxOpN, "fragments": nFrags, "ops_client0": len(plans[0])})
	})
}

// vc29Await waits for the clients. A workload that does not finish is a
// violation only when the hang is provably permanent: on two looks two seconds
// apart no call completed (the stamp counter did not move), every goroutine
// that is inside pilosa code is parked in the same place on a channel, a select
// or a condition variable (none runnable, running, sleeping, in a syscall or
// waiting for a mutex somebody holds), and at least one of them waits on a
// sync.Cond: nobody is left who could signal it. Otherwise the run ends
// inconclusive after limit.
func vc29Await(done <-chan struct{}, clock *int64, limit time.Duration, test, plan string) {
	deadline := time.Now().Add(limit)
	lastSig, lastClock := "", int64(-1)
	for {
		select {
		case <-done:
			return
		case <-time.After(2 * time.Second):
		}
		buf := make([]byte, 1<<22)
		buf = buf[:runtime.Stack(buf, true)]
		sig, stuck := vc29Parked(string(buf))
		now := atomic.LoadInt64(clock)
		if stuck && sig == lastSig && now == lastClock {
			fmt.Printf("--- FAIL: %s\n    C29 violated: deadlock: the workload cannot finish. On two looks 2 s apart no call completed and every goroutine inside pilosa code is parked at the same place on a channel/select/condition variable; the goroutines in sync.Cond.Wait wait for a wake-up nobody is left to send.\nparked goroutines:\n%s\nworkload: %.3000s\nfull dump:\n%.60000s\nFAIL\n", test, sig, plan, buf)
			vkit.Flush()
			os.Stdout.Sync()
			os.Exit(1)
		}
		lastSig, lastClock = "", now
		if stuck {
			lastSig = sig
		}
		if time.Now().After(deadline) {
			vc29Die("clients did not finish within %v and the hang is not provably permanent\n%.60000s", limit, buf)
		}
	}
}

// vc29Parked summarises a goroutine dump: the signature lists every goroutine
// that has a pilosa (non-harness) frame with its wait state and innermost
// pilosa frame; stuck reports that all of them are parked for good as far as
// goroutine states can tell and at least one is in sync.Cond.Wait.
func vc29Parked(dump string) (sig string, stuck bool) {
	var lines []string
	condWaiters := 0
	stuck = true
	for _, g := range strings.Split(dump, "\n\n") {
		g = strings.TrimSpace(g)
		if !strings.HasPrefix(g, "goroutine ") || strings.Contains(g, "vc29Await") {
			continue
		}
		hdr := g
		if i := strings.IndexByte(g, '\n'); i >= 0 {
			hdr = g[:i]
		}
		frame := ""
		for _, l := range strings.Split(g, "\n")[1:] {
			if strings.HasPrefix(l, "github.com/pilosa/pilosa.") && !strings.Contains(l, "vc29") && !strings.Contains(l, "TestVerif") && !strings.Contains(l, "vgc") {
				frame = l
				break
			}
			if strings.HasPrefix(l, "created by") {
				break
			}
		}
		if frame == "" {
			continue
		}
		state := hdr
		if i := strings.IndexByte(hdr, '['); i >= 0 {
			state = strings.TrimSuffix(hdr[i+1:], "]:")
		}
		if i := strings.IndexByte(state, ','); i >= 0 {
			state = state[:i]
		}
		switch state {
		case "chan receive", "select", "chan send", "semacquire", "chan receive (nil chan)", "select (no cases)":
		case "sync.Cond.Wait":
			condWaiters++
		default:
			stuck = false
		}
		if i := strings.IndexByte(frame, '('); i >= 0 {
			frame = frame[:strings.LastIndexByte(frame, '(')]
		}
		id := strings.Fields(hdr)[1]
		lines = append(lines, fmt.Sprintf("  goroutine %s [%s] in %s", id, state, frame))
	}
	sort.Strings(lines)
	return strings.Join(lines, "\n"), stuck && condWaiters > 0
}
