package pilosa

// Shared by C20/C21/C22 (tag gx): ownership model independent of cluster.go.
//   partition(index, shard) = fnv64a(index || bigEndian64(shard)) mod 256        (glossary: Partition, DefaultPartitionN)
//   primary                 = sortedIDs[jump(partition, n)]                       (glossary: Jump Consistent Hash, arXiv 1406.2294)
//   owners                  = the min(max(r,1),n) ring successors starting at primary  (docs/faq.md "Replication on each node?")

import (
	"encoding/binary"
	"hash/fnv"
	"os"
	"strconv"
)

// vGXShardEnv: (shard, nshards) of this process as set by the driver; plain enumerations split their space with it.
func vGXShardEnv() (int, int) {
	s, _ := strconv.Atoi(os.Getenv("VERIF_SHARD"))
	n, _ := strconv.Atoi(os.Getenv("VERIF_NSHARDS"))
	if n < 1 {
		n = 1
	}
	if s < 0 || s >= n {
		s = 0
	}
	return s, n
}

// vGXJump is the published jump consistent hash (Lamping & Veach, fig. 1).
func vGXJump(key uint64, n int) int {
	var b, j int64 = -1, 0
	for j < int64(n) {
		b = j
		key = key*2862933555777941757 + 1
		j = int64(float64(b+1) * (float64(int64(1)<<31) / float64((key>>33)+1)))
	}
	return int(b)
}

func vGXPartition(index string, shard uint64) int {
	var buf [8]byte
	binary.BigEndian.PutUint64(buf[:], shard)
	h := fnv.New64a()
	h.Write([]byte(index))
	h.Write(buf[:])
	return int(h.Sum64() % 256)
}

func vGXReplicaN(r, n int) int {
	if r < 1 {
		r = 1
	}
	if r > n {
		r = n
	}
	return r
}

// vGXPartitionOwners returns the model owner ids of a partition (sorted = ids in byte order).
func vGXPartitionOwners(sorted []string, r, partition int) []string {
	n := len(sorted)
	if n == 0 {
		return nil
	}
	k := vGXReplicaN(r, n)
	p := vGXJump(uint64(partition), n)
	out := make([]string, k)
	for i := 0; i < k; i++ {
		out[i] = sorted[(p+i)%n]
	}
	return out
}

func vGXShardOwners(sorted []string, r int, index string, shard uint64) []string {
	return vGXPartitionOwners(sorted, r, vGXPartition(index, shard))
}

func vGXHas(ids []string, id string) bool {
	for _, x := range ids {
		if x == id {
			return true
		}
	}
	return false
}

// vGXT is what helpers need from *testing.T / *rapid.T.
type vGXT interface {
	Fatalf(format string, args ...interface{})
}
