package pilosa

// C07, Field level for int fields: SetValue / importValue (set and clear) histories over two shards against a map
// model; reads Value, Row(f == v), Sum. The fragment-level machine passes the field's bit depth itself, so the
// depth bookkeeping of Field (D8) is only reachable here.

import (
	"fmt"
	"sort"
	"testing"

	"github.com/pilosa/pilosa/internal/vkit"
	"github.com/pilosa/pilosa/pql"
	"pgregory.net/rapid"
)

// D8: Field.importValue passes the bit depth required by the batch instead of the field's bit depth.
func TestVerifWitness_D8(t *testing.T) {
	f := MustOpenField(OptFieldTypeInt(-2000, 2000))
	defer f.Close()
	if err := f.importValue([]uint64{0}, []int64{1000}, &ImportOptions{}); err != nil {
		t.Fatal(err)
	}
	if err := f.importValue([]uint64{0}, []int64{1}, &ImportOptions{}); err != nil {
		t.Fatal(err)
	}
	if v, ok, err := f.Value(0); err != nil || !ok || v != 1 {
		t.Fatalf("import 1000 then 1 into column 0: Value(0) = (%d,%v,%v), want 1", v, ok, err)
	}
}

func TestVerifC07_FieldInt(t *testing.T) {
	defer vkit.Flush()
	rapid.Check(t, func(t *rapid.T) {
		bounds := rapid.SampledFrom([][2]int64{{-2000, 2000}, {0, 1000}, {-10, 10}, {100, 200}, {-200, -100}, {-5, 1000}}).Draw(t, "bounds")
		min, max := bounds[0], bounds[1]
		f := MustOpenField(OptFieldTypeInt(min, max))
		defer f.Close()
		cols := []uint64{0, 1, 2, 65536, ShardWidth - 1, ShardWidth, ShardWidth + 1}
		genVal := func(l string) int64 {
			return rapid.OneOf(rapid.Int64Range(min, max), rapid.SampledFrom([]int64{min, max, min + 1, (min + max) / 2})).Draw(t, l)
		}
		model := map[uint64]int64{}
		var hist []string
		fail := func(format string, args ...interface{}) {
			t.Fatalf("[int field min=%d max=%d] %s\nhistory:\n  %v", min, max, fmt.Sprintf(format, args...), hist)
		}
		n := rapid.IntRange(1, 12).Draw(t, "steps")
		shrinkingOverwrite, viaImport := false, false
		for i := 0; i < n; i++ {
			switch rapid.SampledFrom([]string{"set", "import", "import", "importClear"}).Draw(t, fmt.Sprintf("s%d.op", i)) {
			case "set":
				c := rapid.SampledFrom(cols).Draw(t, fmt.Sprintf("s%d.col", i))
				v := genVal(fmt.Sprintf("s%d.val", i))
				hist = append(hist, fmt.Sprintf("SetValue(col=%d,%d)", c, v))
				old, had := model[c]
				changed, err := f.SetValue(c, v)
				if err != nil {
					fail("SetValue: %v", err)
				}
				if want := !had || old != v; changed != want {
					fail("SetValue(col=%d,%d) reported changed=%v, want %v", c, v, changed, want)
				}
				model[c] = v
			case "import", "importClear":
				k := rapid.IntRange(1, 4).Draw(t, fmt.Sprintf("s%d.n", i))
				var cs []uint64
				var vs []int64
				for j := 0; j < k; j++ {
					cs = append(cs, rapid.SampledFrom(cols).Draw(t, fmt.Sprintf("s%d.c%d", i, j)))
					vs = append(vs, genVal(fmt.Sprintf("s%d.v%d", i, j)))
				}
				clear := len(hist) > 0 && rapid.IntRange(0, 3).Draw(t, fmt.Sprintf("s%d.clear", i)) == 0
				hist = append(hist, fmt.Sprintf("importValue(cols=%v,vals=%v,clear=%v)", cs, vs, clear))
				if err := f.importValue(append([]uint64(nil), cs...), append([]int64(nil), vs...), &ImportOptions{Clear: clear}); err != nil {
					fail("importValue: %v", err)
				}
				viaImport = true
				for j, c := range cs {
					if old, had := model[c]; had && !clear && bitDepthInt64(vs[j]-f.bsiGroup(f.Name()).Base) < bitDepthInt64(old-f.bsiGroup(f.Name()).Base) {
						shrinkingOverwrite = true
					}
					if clear {
						delete(model, c)
					} else {
						model[c] = vs[j]
					}
				}
			}
			// reads
			var wsum int64
			for _, c := range cols {
				got, ok, err := f.Value(c)
				if err != nil {
					fail("Value(%d): %v", c, err)
				}
				want, wok := model[c]
				if ok != wok || (ok && got != want) {
					fail("Value(col=%d) = (%d,%v), want (%d,%v)", c, got, ok, want, wok)
				}
				wsum += want
			}
			sum, cnt, err := f.Sum(nil, f.Name())
			if err != nil {
				fail("Sum: %v", err)
			}
			if sum != wsum || cnt != int64(len(model)) {
				fail("Sum = (%d,%d), want (%d,%d); values %v", sum, cnt, wsum, len(model), model)
			}
			if len(model) > 0 {
				var keys []uint64
				for c := range model {
					keys = append(keys, c)
				}
				sort.Slice(keys, func(a, b int) bool { return keys[a] < keys[b] })
				p := model[rapid.SampledFrom(keys).Draw(t, fmt.Sprintf("s%d.pred", i))]
				var want []uint64
				for _, c := range keys {
					if model[c] == p {
						want = append(want, c)
					}
				}
				row, err := f.Range(f.Name(), pql.EQ, p)
				if err != nil {
					fail("Range(== %d): %v", p, err)
				}
				var got []uint64
				if row != nil {
					got = row.Columns()
				}
				if !vgfEqU(got, want) {
					fail("Row(f == %d) = %v, want %v; values %v", p, got, want, model)
				}
			}
		}
		c := vkit.NewCase().Key("c07field", min, max, hist)
		defer c.Done()
		c.Class("kind:intField").ClassIf(shrinkingOverwrite, "importOverwritesWithSmallerDepth").ClassIf(viaImport, "path:Field.importValue")
		c.NT(shrinkingOverwrite)
		c.Sample(map[string]interface{}{"min": min, "max": max, "history": hist})
	})
}
