package pilosa

// Shared helpers of group gC (C09 crash consistency, C29 concurrency):
// an in-process single-node Server + API on a given data directory, built only
// from identifiers of package pilosa (encoding/proto, boltdb and http import
// this package, so they cannot be used from in-package tests).

import (
	"context"
	"fmt"
	"time"
)

// vgcNopSerializer satisfies Serializer for a single static node: broadcasts
// marshal a message and then find no peer to send it to.
type vgcNopSerializer struct{}

func (vgcNopSerializer) Marshal(Message) ([]byte, error) { return []byte{}, nil }
func (vgcNopSerializer) Unmarshal([]byte, Message) error {
	return fmt.Errorf("vgcNopSerializer: unexpected Unmarshal on a single node")
}

// vgcLoopClient is the InternalClient of the single node: keyed imports are
// "forwarded" by API.Import/ImportValue through the client to the node that owns
// the shard, which here is the node itself (the HTTP client + handler do exactly
// this: rebuild the request from the bits and call API.Import with the options).
type vgcLoopClient struct {
	nopInternalClient
	api *API
}

func (c *vgcLoopClient) Import(ctx context.Context, index, field string, shard uint64, bits []Bit, opts ...ImportOption) error {
	req := &ImportRequest{Index: index, Field: field, Shard: shard}
	for _, b := range bits {
		req.RowIDs = append(req.RowIDs, b.RowID)
		req.ColumnIDs = append(req.ColumnIDs, b.ColumnID)
		req.Timestamps = append(req.Timestamps, b.Timestamp)
	}
	return c.api.Import(ctx, req, opts...)
}

func (c *vgcLoopClient) ImportValue(ctx context.Context, index, field string, shard uint64, vals []FieldValue, opts ...ImportOption) error {
	req := &ImportValueRequest{Index: index, Field: field, Shard: shard}
	for _, v := range vals {
		req.ColumnIDs = append(req.ColumnIDs, v.ColumnID)
		req.Values = append(req.Values, v.Value)
	}
	return c.api.ImportValue(ctx, req, opts...)
}

// vgcNode is a running in-process node.
type vgcNode struct {
	Server *Server
	API    *API
}

// vgcOpenNode starts a single static node on dataDir.
func vgcOpenNode(dataDir string) (*vgcNode, error) {
	uri, err := NewURIFromAddress("http://localhost:10101")
	if err != nil {
		return nil, err
	}
	lc := &vgcLoopClient{}
	s, err := NewServer(
		OptServerInternalClient(lc),
		OptServerDataDir(dataDir),
		OptServerURI(uri),
		OptServerNodeID("vgc-node"),
		OptServerAntiEntropyInterval(0),
		OptServerMetricInterval(0),
		OptServerDiagnosticsInterval(0),
		OptServerLongQueryTime(time.Hour),
		OptServerExecutorPoolSize(2),
		OptServerTranslateFileMapSize(1<<26),
		OptServerSerializer(vgcNopSerializer{}),
		OptServerClusterDisabled(true, nil),
		OptServerIsCoordinator(true),
	)
	if err != nil {
		return nil, fmt.Errorf("NewServer: %v", err)
	}
	if err := s.Open(); err != nil {
		return nil, fmt.Errorf("Server.Open: %v", err)
	}
	api, err := NewAPI(OptAPIServer(s))
	if err != nil {
		s.Close()
		return nil, fmt.Errorf("NewAPI: %v", err)
	}
	lc.api = api
	return &vgcNode{Server: s, API: api}, nil
}

func (n *vgcNode) Close() error {
	n.API.Close()
	return n.Server.Close()
}

// vgcQuery runs one PQL string.
func (n *vgcNode) vgcQuery(index, pql string) ([]interface{}, error) {
	resp, err := n.API.Query(context.Background(), &QueryRequest{Index: index, Query: pql})
	if err != nil {
		return nil, err
	}
	return resp.Results, nil
}

// vgcAllFragments lists every open fragment of the holder.
func vgcAllFragments(h *Holder) []*fragment {
	var out []*fragment
	for _, idx := range h.Indexes() {
		for _, fld := range idx.Fields() {
			for _, v := range fld.views() {
				out = append(out, v.allFragments()...)
			}
		}
	}
	return out
}
