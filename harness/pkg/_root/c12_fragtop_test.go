package pilosa

// C12 — TopN reports true row counts (fragment level: fragment.top).
// (a) for explicitly requested ids every reported count equals |row| (∩ src), rows with count 0 are absent, nothing
//     outside the request is reported — for any history, any cache type/size;
// (b) when every row ever written fits the cache and the cache was just recalculated, top(n) returns
//     min(n, #non-empty rows) rows with exact counts, the largest ones, in non-increasing order (order only for ranked).

import (
	"fmt"
	"os"
	"sort"
	"testing"

	"github.com/pilosa/pilosa/internal/vkit"
	"pgregory.net/rapid"
)

type vgfTopStats struct {
	uncached, emptied, fits, notFits, withSrc, afterImport, fitsEpoch, shrinks int
}

func (m *vgfM) cnt(r uint64) uint64 { return uint64(len(m.bits[r])) }

func (m *vgfM) inter(r uint64, src map[uint64]struct{}) uint64 {
	var n uint64
	for c := range m.bits[r] {
		if _, ok := src[c]; ok {
			n++
		}
	}
	return n
}

func (m *vgfM) checkTopIDs(label string, st *vgfTopStats) {
	pool := append([]uint64{7}, m.rows...) // 7 is never written
	ids := rapid.SliceOfNDistinct(rapid.SampledFrom(pool), 1, 5, func(v uint64) uint64 { return v }).Draw(m.t, label+".ids")
	sort.Slice(ids, func(i, j int) bool { return ids[i] < ids[j] })
	thr := rapid.SampledFrom([]uint64{0, 1, 1, 2, 3}).Draw(m.t, label+".threshold")
	var src *Row
	var srcSet map[uint64]struct{}
	if rapid.Bool().Draw(m.t, label+".hasSrc") {
		cols := rapid.SliceOfNDistinct(rapid.SampledFrom(m.allCols()), 1, 5, func(v uint64) uint64 { return v }).Draw(m.t, label+".src")
		src = NewRow(cols...)
		srcSet = map[uint64]struct{}{}
		for _, c := range cols {
			srcSet[c] = struct{}{}
		}
		st.withSrc++
	}
	want := map[uint64]uint64{}
	for _, id := range ids {
		cnt := m.cnt(id)
		if cnt == 0 {
			if _, was := m.everRows[id]; was {
				st.emptied++
			}
			continue
		}
		if m.f.cache.Get(id) == 0 {
			st.uncached++
		}
		if cnt < thr {
			continue
		}
		count := cnt
		if src != nil {
			count = m.inter(id, srcSet)
		}
		if count == 0 || count < thr {
			continue
		}
		want[id] = count
	}
	pairs, err := m.f.top(topOptions{RowIDs: ids, Src: src, MinThreshold: thr})
	if err != nil {
		m.fail("top(ids=%v): %v", ids, err)
	}
	got := map[uint64]uint64{}
	for _, p := range pairs {
		if _, dup := got[p.ID]; dup {
			m.fail("top(ids=%v, src=%v, threshold=%d) reports row %d twice: %v", ids, srcSet, thr, p.ID, pairs)
		}
		got[p.ID] = p.Count
	}
	if fmt.Sprint(got) != fmt.Sprint(want) {
		m.fail("top(ids=%v, src=%v, threshold=%d) = %v, want %v (id:count)", ids, vgfKeys(srcSet), thr, got, want)
	}
}

func vgfKeys(s map[uint64]struct{}) []uint64 {
	var a []uint64
	for k := range s {
		a = append(a, k)
	}
	sort.Slice(a, func(i, j int) bool { return a[i] < a[j] })
	return a
}

func (m *vgfM) checkTopN(label string, st *vgfTopStats) {
	// "rows fit the cache": either no more rows than the cache holds were ever named on this fragment, or (wider) a
	// recalculation found the cache holding at most CacheSize rows, the rows cached then plus the rows named since still
	// fit, and every non-empty row was cached then or changed since (so it was admitted with threshold 1)
	fitsEver := uint32(len(m.touched)) <= m.cfg.CacheSize
	fitsEpoch := m.epochOn
	if fitsEpoch {
		for _, r := range m.nonEmptyRows() {
			if _, ok := m.epochG[r]; !ok {
				fitsEpoch = false
			}
		}
	}
	if !fitsEver && !fitsEpoch {
		st.notFits++
		return
	}
	st.fits++
	if !fitsEver {
		st.fitsEpoch++
	}
	// a bulk import recalculates the cache itself; otherwise the harness asks for the recalculation
	if m.lastOp == "import" && rapid.Bool().Draw(m.t, label+".trustImportRecalc") {
		st.afterImport++
	} else {
		m.f.RecalculateCache()
	}
	n := rapid.SampledFrom([]int{0, 1, 2, 3, 4, 20}).Draw(m.t, label+".n")
	var src *Row
	var srcSet map[uint64]struct{}
	if rapid.Bool().Draw(m.t, label+".hasSrc") {
		cols := rapid.SliceOfNDistinct(rapid.SampledFrom(m.allCols()), 1, 5, func(v uint64) uint64 { return v }).Draw(m.t, label+".src")
		src = NewRow(cols...)
		srcSet = map[uint64]struct{}{}
		for _, c := range cols {
			srcSet[c] = struct{}{}
		}
		st.withSrc++
	}
	x := map[uint64]uint64{}
	var counts []uint64
	for _, r := range m.nonEmptyRows() {
		v := m.cnt(r)
		if src != nil {
			v = m.inter(r, srcSet)
		}
		if v > 0 {
			x[r] = v
			counts = append(counts, v)
		}
	}
	sort.Slice(counts, func(i, j int) bool { return counts[i] > counts[j] })
	k := len(counts)
	if n > 0 && n < k {
		k = n
	}
	pairs, err := m.f.top(topOptions{N: n, Src: src})
	if err != nil {
		m.fail("top(n=%d): %v", n, err)
	}
	desc := fmt.Sprintf("top(n=%d, src=%v) after a recalculation = %v; true counts %v", n, vgfKeys(srcSet), pairs, x)
	seen := map[uint64]bool{}
	for i, p := range pairs {
		if seen[p.ID] {
			m.fail("%s: row %d twice", desc, p.ID)
		}
		seen[p.ID] = true
		if x[p.ID] != p.Count {
			m.fail("%s: row %d reported with count %d, true count %d", desc, p.ID, p.Count, x[p.ID])
		}
		if m.cfg.Cache == CacheTypeRanked && i > 0 && pairs[i-1].Count < p.Count {
			m.fail("%s: not in non-increasing order", desc)
		}
	}
	if src == nil && len(pairs) != k {
		m.fail("%s: %d rows returned, want min(n, non-empty rows) = %d", desc, len(pairs), k)
	}
	if len(pairs) < k {
		m.fail("%s: %d rows returned, want at least %d", desc, len(pairs), k)
	}
	// the k largest counts must be present
	var gotCounts []uint64
	for _, p := range pairs {
		gotCounts = append(gotCounts, p.Count)
	}
	sort.Slice(gotCounts, func(i, j int) bool { return gotCounts[i] > gotCounts[j] })
	for i := 0; i < k; i++ {
		if gotCounts[i] != counts[i] {
			m.fail("%s: the %d largest counts are %v, reported (sorted) %v", desc, k, counts[:k], gotCounts)
		}
	}
}

func TestVerifC12_FragTop(t *testing.T) {
	defer vkit.Flush()
	rapid.Check(t, func(t *rapid.T) {
		cfg := vgfGenCfg(t, "cfg", []string{vgfSet, vgfSet, vgfSet, vgfMutex}, []string{CacheTypeRanked, CacheTypeRanked, CacheTypeLRU}, []uint32{1, 2, 3, 5, 9, 50000})
		dir := vgfTempDir(t)
		defer os.RemoveAll(dir)
		m := vgfNew(t, cfg, dir, "frag")
		closed := false
		defer func() {
			if !closed {
				m.drain()
				_ = m.f.Close()
			}
		}()
		ws := vgfDefaultWeights(cfg.Kind)
		n := rapid.IntRange(1, vkit.Scale(25, 40)).Draw(t, "steps")
		c := vkit.NewCase()
		defer c.Done()
		st := &vgfTopStats{}
		for i := 0; i < n; i++ {
			l := fmt.Sprintf("s%d", i)
			m.apply(vgfGenOp(t, l, cfg, ws))
			switch rapid.SampledFrom([]string{"none", "ids", "ids", "ids", "topn", "topn", "reads", "epoch", "shrink"}).Draw(t, l+".q") {
			case "ids":
				m.checkTopIDs(l, st)
			case "topn":
				m.checkTopN(l, st)
			case "epoch":
				m.startEpoch()
			case "shrink":
				// empty all rows but a few through the import/store paths, then recalculate: the rows fit again
				keep := rapid.IntRange(0, int(vgfMinU32(cfg.CacheSize, 4))).Draw(t, l+".keep")
				via := rapid.SampledFrom([]string{"import", "roaring", "setRow"}).Draw(t, l+".via")
				for i, r := range m.nonEmptyRows() {
					if i < keep {
						continue
					}
					switch {
					case via == "setRow" && cfg.Kind == vgfSet:
						m.apply(vgfOp{Name: "setRow", Row: r, Src: "none"})
					case via == "roaring" && cfg.Kind == vgfSet:
						cols := m.rowCols(r)
						rows := make([]uint64, len(cols))
						for j := range rows {
							rows[j] = r
						}
						m.apply(vgfOp{Name: "roaring", Rows: rows, Cols: cols, Clear: true})
					default:
						cols := m.rowCols(r)
						rows := make([]uint64, len(cols))
						for j := range rows {
							rows[j] = r
						}
						m.apply(vgfOp{Name: "import", Rows: rows, Cols: cols, Clear: true})
					}
				}
				if m.startEpoch() {
					st.shrinks++
				}
			case "reads":
				m.checkSome(l)
			}
		}
		m.checkTopIDs("end", st)
		m.checkTopN("end", st)
		m.close()
		closed = true
		c.Key("c12", cfg.String(), m.hist)
		c.Class("kind:"+cfg.Kind).Class("cache:%s/%d", cfg.Cache, cfg.CacheSize)
		c.ClassIf(st.uncached > 0, "requestedRowNotInCache").ClassIf(st.emptied > 0, "requestedRowEmptied")
		c.ClassIf(st.fits > 0, "topN:rowsFitCache").ClassIf(st.notFits > 0, "topN:skippedRowsDoNotFit").ClassIf(st.withSrc > 0, "withSrcRow").ClassIf(st.afterImport > 0, "topN:rightAfterBulkImport").ClassIf(st.fitsEpoch > 0, "topN:rowsFitAgainAfterOverfullCache").ClassIf(st.shrinks > 0, "rowsEmptiedThenRecalculated")
		for p := range m.paths {
			c.Class("path:" + p)
		}
		c.NT(st.uncached > 0 || st.emptied > 0)
		c.Sample(map[string]interface{}{"cfg": cfg.String(), "history": m.hist})
	})
}

func vgfMinU32(a uint32, b int) uint32 {
	if a < uint32(b) {
		return a
	}
	return uint32(b)
}
