package pilosa

// Temp files of the gX checks (fragments, holders, node data dirs) go to tmpfs when one is
// available: the checks create and fsync thousands of small files and none of their
// properties is about durability. Falls back to the default temp dir.

import (
	"os"
	"syscall"
)

func init() {
	if os.Getenv("VERIF_GX_NO_SHM") != "" {
		return
	}
	const base = "/dev/shm"
	var st syscall.Statfs_t
	if err := syscall.Statfs(base, &st); err != nil || st.Type != 0x01021994 { // TMPFS_MAGIC
		return
	}
	dir := base + "/verif-gx"
	if err := os.MkdirAll(dir, 0o777); err != nil {
		return
	}
	os.Setenv("TMPDIR", dir)
}
