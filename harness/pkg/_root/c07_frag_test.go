package pilosa

// C07 — every shard read reflects all completed writes, whatever the write path.
// State machine on one fragment per field type against a map model (gfrag_machine_test.go).

import (
	"fmt"
	"os"
	"testing"

	"github.com/pilosa/pilosa/internal/vkit"
	"pgregory.net/rapid"
)

func vgfRunC07(t *rapid.T, kinds []string) {
	cfg := vgfGenCfg(t, "cfg", kinds, []string{CacheTypeRanked, CacheTypeLRU, CacheTypeNone}, []uint32{2, 3, 50000})
	dir := vgfTempDir(t)
	defer os.RemoveAll(dir)
	m := vgfNew(t, cfg, dir, "frag")
	closed := false
	defer func() {
		if !closed {
			m.drain()
			_ = m.f.Close()
		}
	}()
	ws := vgfDefaultWeights(cfg.Kind)
	n := rapid.IntRange(1, vkit.Scale(30, 45)).Draw(t, "steps")
	c := vkit.NewCase()
	defer c.Done()
	for i := 0; i < n; i++ {
		op := vgfGenOp(t, fmt.Sprintf("s%d", i), cfg, ws)
		m.apply(op)
		m.checkSome(fmt.Sprintf("s%d", i))
	}
	m.checkAll()
	if cfg.Kind != vgfBSI {
		m.checkMinMaxRow()
	}
	// a clean restart shows the same state
	m.apply(vgfOp{Name: "reopenNew"})
	m.checkAll()
	m.close()
	closed = true

	c.Key("c07", cfg.String(), m.hist)
	c.Class("kind:"+cfg.Kind).Class("cache:"+cfg.Cache).Class("maxOpN:%d", cfg.MaxOpN)
	c.ClassIf(cfg.Bg, "bgQueue").ClassIf(cfg.FileLimit, "openFileLimitExceeded").ClassIf(m.nSnap > 0, "snapshotHappened").ClassIf(m.nReopen > 1, "reopenMidHistory")
	for p := range m.paths {
		c.Class("path:" + p)
	}
	for ev := range m.events {
		c.Class(ev)
	}
	c.ClassIf(m.crossPath, "crossPathAfterRead")
	c.ClassIf(m.wide, "containerBeyondInlineSize")
	c.NT(m.crossPath)
	c.Sample(map[string]interface{}{"cfg": cfg.String(), "history": m.hist})
}

func TestVerifC07_FragSet(t *testing.T) {
	defer vkit.Flush()
	rapid.Check(t, func(t *rapid.T) { vgfRunC07(t, []string{vgfSet}) })
}

func TestVerifC07_FragMutexBool(t *testing.T) {
	defer vkit.Flush()
	rapid.Check(t, func(t *rapid.T) { vgfRunC07(t, []string{vgfMutex, vgfBool}) })
}

func TestVerifC07_FragBSI(t *testing.T) {
	defer vkit.Flush()
	rapid.Check(t, func(t *rapid.T) { vgfRunC07(t, []string{vgfBSI}) })
}
