package pilosa

// C21 — A resize plan copies every newly owned shard from a surviving owner.
//
// In-package, real Holder in a temp dir. The plan is produced by the function the coordinator
// uses (cluster.unprotectedGenerateResizeJobByAction -> fragSources per index). The ownership
// model is the one of C20 (gx_model_test.go). Checked:
//   * every (index, field, view, shard) a resulting node owns after but not before appears in that
//     node's instruction, with a source that owned the shard before and is not the removed node;
//   * the plan is refused only when the model finds a newly owned fragment without such a source;
//   * applying the plan to a simulated holder of a resulting node and running
//     holderCleaner.CleanHolder leaves exactly the fragments whose shard the node owns now.

import (
	"fmt"
	"io/ioutil"
	"os"
	"sort"
	"strings"
	"testing"

	"github.com/pilosa/pilosa/internal/vkit"
	"github.com/pilosa/pilosa/roaring"
	"pgregory.net/rapid"
)

type vC21T interface {
	Fatalf(format string, args ...interface{})
}

// schema of one index
type vC21Field struct {
	Name  string
	Views []string
	// shards with a real local fragment (in every view) on the coordinator / only known as remote-available
	Local, Remote []uint64
}

type vC21Index struct {
	Name   string
	Fields []vC21Field
}

func (ix vC21Index) avail() []uint64 {
	m := map[uint64]bool{}
	for _, f := range ix.Fields {
		for _, s := range f.Remote {
			m[s] = true
		}
		if len(f.Views) > 0 {
			for _, s := range f.Local {
				m[s] = true
			}
		}
	}
	out := make([]uint64, 0, len(m))
	for s := range m {
		out = append(out, s)
	}
	sort.Slice(out, func(i, j int) bool { return out[i] < out[j] })
	return out
}

type vC21Frag struct {
	Index, Field, View string
	Shard              uint64
}

func (f vC21Frag) String() string {
	return fmt.Sprintf("%s/%s/%s/%d", f.Index, f.Field, f.View, f.Shard)
}

// vC21Universe: the (index, field, view, shard) combinations the plan speaks about:
// every field/view of the index x every shard available in the index.
func vC21Universe(schema []vC21Index) []vC21Frag {
	var out []vC21Frag
	for _, ix := range schema {
		for _, s := range ix.avail() {
			for _, f := range ix.Fields {
				for _, v := range f.Views {
					out = append(out, vC21Frag{ix.Name, f.Name, v, s})
				}
			}
		}
	}
	return out
}

// vC21Holder creates a real holder with the schema. With frags == nil the coordinator's view is built
// (local fragments for Local shards, remote-available bitmap for Remote); otherwise exactly the listed
// fragments are created and every available shard is registered as remote-available (what
// followResizeInstruction does with the NodeStatus it receives).
func vC21Holder(t vC21T, dir string, schema []vC21Index, frags []vC21Frag) *Holder {
	h := NewHolder()
	h.Path = dir
	if err := h.Open(); err != nil {
		t.Fatalf("opening holder: %v", err)
	}
	for _, ix := range schema {
		idx, err := h.CreateIndex(ix.Name, IndexOptions{})
		if err != nil {
			t.Fatalf("creating index: %v", err)
		}
		for _, f := range ix.Fields {
			fld, err := idx.CreateField(f.Name, OptFieldTypeSet(CacheTypeNone, 0))
			if err != nil {
				t.Fatalf("creating field: %v", err)
			}
			for _, vn := range f.Views {
				v, err := fld.createViewIfNotExists(vn)
				if err != nil {
					t.Fatalf("creating view: %v", err)
				}
				if frags == nil {
					for _, s := range f.Local {
						if _, err := v.CreateFragmentIfNotExists(s); err != nil {
							t.Fatalf("creating fragment: %v", err)
						}
					}
				}
			}
			if frags == nil {
				if len(f.Remote) > 0 {
					if err := fld.AddRemoteAvailableShards(roaring.NewBitmap(f.Remote...)); err != nil {
						t.Fatalf("remote shards: %v", err)
					}
				}
			} else if av := ix.avail(); len(av) > 0 {
				if err := fld.AddRemoteAvailableShards(roaring.NewBitmap(av...)); err != nil {
					t.Fatalf("remote shards: %v", err)
				}
			}
		}
	}
	for _, fr := range frags {
		v := h.view(fr.Index, fr.Field, fr.View)
		if v == nil {
			t.Fatalf("view of %s missing in simulated holder", fr)
		}
		if _, err := v.CreateFragmentIfNotExists(fr.Shard); err != nil {
			t.Fatalf("creating fragment: %v", err)
		}
	}
	return h
}

func vC21HolderFrags(h *Holder) map[vC21Frag]bool {
	out := map[vC21Frag]bool{}
	for _, idx := range h.Indexes() {
		for _, f := range idx.Fields() {
			for _, v := range f.views() {
				for _, fr := range v.allFragments() {
					out[vC21Frag{idx.Name(), f.Name(), v.name, fr.shard}] = true
				}
			}
		}
	}
	return out
}

func vC21Cluster(ids []string, r int, self string, h *Holder) *cluster {
	c := newCluster()
	c.ReplicaN = r
	c.holder = h
	for i, id := range ids {
		n := &Node{ID: id, URI: NewTestURI("http", fmt.Sprintf("host-%s", id), uint16(10101+i))}
		c.addNodeBasicSorted(n)
	}
	c.Node = c.unprotectedNodeByID(self)
	return c
}

type vC21Case struct {
	IDs     []string // members before, sorted
	R       int
	Coord   string
	Action  string // resizeJobActionAdd / resizeJobActionRemove
	Target  string // node added / removed
	Schema  []vC21Index
	CleanOn []string // resulting nodes whose holder is simulated and cleaned
}

type vC21Result struct {
	newlyOwned, removedOnlySource, refused bool
	planned                                int
}

// vC21Check runs one configuration.
func vC21Check(t vC21T, dir string, cs vC21Case) vC21Result {
	var res vC21Result
	desc := func() string {
		return fmt.Sprintf("members=%v replicas=%d coordinator=%s %s %s schema=%+v", cs.IDs, cs.R, cs.Coord, cs.Action, cs.Target, cs.Schema)
	}
	before := append([]string(nil), cs.IDs...)
	sort.Strings(before)
	var after []string
	if cs.Action == resizeJobActionAdd {
		after = append(append([]string(nil), before...), cs.Target)
		sort.Strings(after)
	} else {
		for _, id := range before {
			if id != cs.Target {
				after = append(after, id)
			}
		}
	}
	hdir, err := ioutil.TempDir(dir, "coord-")
	if err != nil {
		t.Fatalf("tempdir: %v", err)
	}
	h := vC21Holder(t, hdir, cs.Schema, nil)
	defer func() { h.Close(); os.RemoveAll(hdir) }()
	c := vC21Cluster(before, cs.R, cs.Coord, h)
	c.Coordinator = cs.Coord

	// the index-level available shards must be what the model assumes
	for _, ix := range cs.Schema {
		if got := h.Index(ix.Name).AvailableShards().Slice(); fmt.Sprint(got) != fmt.Sprint(ix.avail()) && !(len(got) == 0 && len(ix.avail()) == 0) {
			t.Fatalf("harness: available shards of %s = %v, model %v", ix.Name, got, ix.avail())
		}
	}

	// model: newly owned fragments per resulting node, and whether each has a surviving previous owner
	universe := vC21Universe(cs.Schema)
	type need struct {
		node string
		frag vC21Frag
	}
	var needs []need
	sourceOK := map[vC21Frag][]string{}
	noSource := false
	for _, fr := range universe {
		ob := vGXShardOwners(before, cs.R, fr.Index, fr.Shard)
		oa := vGXShardOwners(after, cs.R, fr.Index, fr.Shard)
		var surv []string
		for _, o := range ob {
			if !(cs.Action == resizeJobActionRemove && o == cs.Target) {
				surv = append(surv, o)
			}
		}
		sourceOK[fr] = surv
		for _, x := range oa {
			if !vGXHas(ob, x) {
				needs = append(needs, need{x, fr})
				res.newlyOwned = true
				if len(surv) == 0 {
					noSource = true
				}
				if cs.Action == resizeJobActionRemove && vGXHas(ob, cs.Target) && len(surv) == 1 {
					res.removedOnlySource = true // exactly one survivor can serve
				}
			}
		}
	}

	target := &Node{ID: cs.Target, URI: NewTestURI("http", "host-"+cs.Target, 10999)}
	j, err := c.unprotectedGenerateResizeJobByAction(nodeAction{node: target, action: cs.Action})
	if err != nil {
		res.refused = true
		if !noSource {
			t.Fatalf("plan refused (%v) although every newly owned fragment has a surviving previous owner; %s", err, desc())
		}
		if !strings.Contains(err.Error(), "not enough data") {
			t.Fatalf("plan refused with unexpected error %v; %s", err, desc())
		}
		return res
	}
	// plan[node][frag] = source id
	plan := map[string]map[vC21Frag]string{}
	for _, instr := range j.Instructions {
		if instr.Node == nil {
			t.Fatalf("instruction without target node; %s", desc())
		}
		if !vGXHas(after, instr.Node.ID) {
			t.Fatalf("instruction for %s which is not a member of the resulting cluster %v; %s", instr.Node.ID, after, desc())
		}
		if plan[instr.Node.ID] != nil {
			t.Fatalf("two instructions for node %s; %s", instr.Node.ID, desc())
		}
		plan[instr.Node.ID] = map[vC21Frag]string{}
		for _, src := range instr.Sources {
			fr := vC21Frag{src.Index, src.Field, src.View, src.Shard}
			if src.Node == nil {
				t.Fatalf("source of %s for node %s names no node; %s", fr, instr.Node.ID, desc())
			}
			if !vGXHas(sourceOK[fr], src.Node.ID) {
				t.Fatalf("node %s is told to fetch %s from %s, but the previous owners that survive are %v (owners before: %v); %s",
					instr.Node.ID, fr, src.Node.ID, sourceOK[fr], vGXShardOwners(before, cs.R, fr.Index, fr.Shard), desc())
			}
			if want := c.unprotectedNodeByID(src.Node.ID); want == nil || want.URI != src.Node.URI {
				t.Fatalf("source node %s of %s carries URI %v, the member's URI is %v; %s", src.Node.ID, fr, src.Node.URI, want, desc())
			}
			plan[instr.Node.ID][fr] = src.Node.ID
			res.planned++
		}
	}
	for _, nd := range needs {
		if _, ok := plan[nd.node][nd.frag]; !ok {
			t.Fatalf("node %s newly owns %s (owners before %v, after %v) but its instruction names no source for it (plan for the node: %v); %s",
				nd.node, nd.frag, vGXShardOwners(before, cs.R, nd.frag.Index, nd.frag.Shard), vGXShardOwners(after, cs.R, nd.frag.Index, nd.frag.Shard), plan[nd.node], desc())
		}
	}
	// bookkeeping of the job: exactly the resulting members are tracked, those without work are complete
	for _, id := range after {
		done, ok := j.IDs[id]
		if !ok {
			t.Fatalf("resulting member %s is not tracked by the job (IDs=%v); %s", id, j.IDs, desc())
		}
		if done != (len(plan[id]) == 0) {
			t.Fatalf("job marks %s complete=%v but its instruction has %d sources; %s", id, done, len(plan[id]), desc())
		}
	}
	if len(j.IDs) != len(after) {
		t.Fatalf("job tracks %v, resulting members are %v; %s", j.IDs, after, desc())
	}
	extra := 0
	for node, m := range plan {
		for fr := range m {
			if vGXHas(vGXShardOwners(before, cs.R, fr.Index, fr.Shard), node) || !vGXHas(vGXShardOwners(after, cs.R, fr.Index, fr.Shard), node) {
				extra++
			}
		}
	}
	vkit.Count("plan-entries-not-newly-owned", extra)

	// cleanup on simulated holders of resulting nodes
	for _, x := range cs.CleanOn {
		var have []vC21Frag
		wantAfter := map[vC21Frag]bool{}
		for _, fr := range universe {
			ob := vGXShardOwners(before, cs.R, fr.Index, fr.Shard)
			if vGXHas(ob, x) {
				have = append(have, fr) // held as a previous owner
			}
			if vGXHas(vGXShardOwners(after, cs.R, fr.Index, fr.Shard), x) {
				wantAfter[fr] = true
			}
		}
		for fr := range plan[x] {
			have = append(have, fr) // fetched by following the instruction
		}
		xdir, err := ioutil.TempDir(dir, "node-")
		if err != nil {
			t.Fatalf("tempdir: %v", err)
		}
		hx := vC21Holder(t, xdir, cs.Schema, have)
		cx := vC21Cluster(after, cs.R, x, hx)
		cleaner := holderCleaner{Node: cx.Node, Holder: hx, Cluster: cx, Closing: make(chan struct{})}
		if err := cleaner.CleanHolder(); err != nil {
			t.Fatalf("CleanHolder on %s: %v; %s", x, err, desc())
		}
		got := vC21HolderFrags(hx)
		hx.Close()
		os.RemoveAll(xdir)
		for fr := range wantAfter {
			if !got[fr] {
				t.Fatalf("after resize and cleanup node %s lacks %s which it owns (owners after %v); %s", x, fr, vGXShardOwners(after, cs.R, fr.Index, fr.Shard), desc())
			}
		}
		for fr := range got {
			if !wantAfter[fr] {
				t.Fatalf("cleanup on node %s kept %s which the node does not own (owners after %v); %s", x, fr, vGXShardOwners(after, cs.R, fr.Index, fr.Shard), desc())
			}
		}
		vkit.Count("cleanups", 1)
		if x != cs.Coord {
			vC21FollowerResize(t, dir, cs, x, before, after, have, wantAfter, desc)
			vkit.Count("follower-resizes", 1)
		}
	}
	return res
}

func vC21Status(state string, members []string, coord string) *ClusterStatus {
	st := &ClusterStatus{ClusterID: "cid", State: state}
	for _, id := range members {
		st.Nodes = append(st.Nodes, &Node{ID: id, URI: NewTestURI("http", fmt.Sprintf("host-%s", id), 10101), IsCoordinator: id == coord})
	}
	return st
}

// vC21FollowerResize drives a non-coordinator `cluster` with a real Holder through the status messages of a
// real resize: (member of the old cluster: NORMAL with the old members) -> RESIZING with the old members (the
// status every ResizeInstruction carries) -> the node follows its instruction (fragments created) -> NORMAL
// with the NEW members. The cleanup that the node runs by itself on the RESIZING -> NORMAL transition must
// leave exactly the fragments of shards the node owns under the new membership.
func vC21FollowerResize(t vC21T, dir string, cs vC21Case, x string, before, after []string, have []vC21Frag, wantAfter map[vC21Frag]bool, desc func() string) {
	xdir, err := ioutil.TempDir(dir, "follower-")
	if err != nil {
		t.Fatalf("tempdir: %v", err)
	}
	defer os.RemoveAll(xdir)
	// what the node holds before the resize starts: fragments of shards it owned (nothing for a joining node)
	var held, fetched []vC21Frag
	for _, fr := range have {
		if vGXHas(vGXShardOwners(before, cs.R, fr.Index, fr.Shard), x) {
			held = append(held, fr)
		} else {
			fetched = append(fetched, fr)
		}
	}
	hx := vC21Holder(t, xdir, cs.Schema, held)
	defer hx.Close()
	c := newCluster()
	c.ReplicaN = cs.R
	c.Path = xdir
	c.Topology = newTopology()
	c.holder = hx
	c.Node = &Node{ID: x, URI: NewTestURI("http", fmt.Sprintf("host-%s", x), 10101)}
	c.Coordinator = cs.Coord
	if err := c.addNode(c.Node); err != nil { // cluster.setup
		t.Fatalf("follower addNode(self): %v", err)
	}
	selfURI := func(st *ClusterStatus) *ClusterStatus { return st }
	if vGXHas(before, x) {
		if err := c.mergeClusterStatus(selfURI(vC21Status(ClusterStateNormal, before, cs.Coord))); err != nil {
			t.Fatalf("follower status NORMAL(old): %v", err)
		}
	}
	if err := c.mergeClusterStatus(selfURI(vC21Status(ClusterStateResizing, before, cs.Coord))); err != nil {
		t.Fatalf("follower status RESIZING: %v", err)
	}
	for _, fr := range fetched { // followResizeInstruction: createViewIfNotExists + CreateFragmentIfNotExists + copy
		v := hx.view(fr.Index, fr.Field, fr.View)
		if v == nil {
			t.Fatalf("follower: view of %s missing", fr)
		}
		if _, err := v.CreateFragmentIfNotExists(fr.Shard); err != nil {
			t.Fatalf("follower: creating fragment: %v", err)
		}
	}
	if err := c.mergeClusterStatus(selfURI(vC21Status(ClusterStateNormal, after, cs.Coord))); err != nil {
		t.Fatalf("follower status NORMAL(new): %v", err)
	}
	if got := c.nodeIDs(); fmt.Sprint(got) != fmt.Sprint(after) {
		t.Fatalf("follower %s lists members %v after the resize, the coordinator announced %v; %s", x, got, after, desc())
	}
	got := vC21HolderFrags(hx)
	for fr := range wantAfter {
		if !got[fr] {
			t.Fatalf("follower %s went RESIZING -> (copied its newly owned fragments) -> NORMAL with members %v: its own cleanup deleted %s although it owns shard %d now (owners after %v); %s",
				x, after, fr, fr.Shard, vGXShardOwners(after, cs.R, fr.Index, fr.Shard), desc())
		}
	}
	for fr := range got {
		if !wantAfter[fr] {
			t.Fatalf("follower %s after RESIZING -> NORMAL with members %v still holds %s which it does not own (owners after %v); %s",
				x, after, fr, vGXShardOwners(after, cs.R, fr.Index, fr.Shard), desc())
		}
	}
}

var vC21IDPool = []string{"node0", "node1", "node2", "node3", "node4", "node5", "node6", "a-first", "node25", "zz-last"}

func vC21Record(cs vC21Case, res vC21Result, key string) {
	k := vkit.NewCase().Key(key, fmt.Sprintf("%+v", cs))
	k.Class("n=%d", len(cs.IDs)).Class("r=%d", cs.R).Class(strings.ToLower(cs.Action))
	k.ClassIf(res.refused, "refused").ClassIf(res.newlyOwned, "newly-owned>0").ClassIf(res.removedOnlySource, "single-surviving-source")
	if cs.Action == resizeJobActionAdd {
		after := append(append([]string(nil), cs.IDs...), cs.Target)
		sort.Strings(after)
		switch {
		case after[0] == cs.Target:
			k.Class("add-sorts-first")
		case after[len(after)-1] == cs.Target:
			k.Class("add-sorts-last")
		default:
			k.Class("add-sorts-middle")
		}
	}
	k.NT(res.newlyOwned && (cs.R > 1 || res.refused || res.removedOnlySource || cs.Action == resizeJobActionRemove))
	k.Sample(map[string]interface{}{"members": cs.IDs, "replicas": cs.R, "action": cs.Action, "node": cs.Target, "planned_sources": res.planned, "refused": res.refused})
	k.Done()
}

// TestVerifC21_Grid: clusters of 1..6 nodes x replicas 1..4 x every single-node add (new id first / between
// every pair / last) and every remove, over a fixed schema (2 indexes, 3 fields, 1-3 views, shards within 0..12).
func TestVerifC21_Grid(t *testing.T) {
	defer vkit.Flush()
	dir, err := ioutil.TempDir("", "verif-c21-")
	if err != nil {
		t.Fatal(err)
	}
	defer os.RemoveAll(dir)
	schemas := [][]vC21Index{
		{
			{Name: "i", Fields: []vC21Field{
				{Name: "f", Views: []string{viewStandard}, Local: []uint64{0, 3}, Remote: []uint64{1, 2, 5, 8, 12}},
				{Name: "t", Views: []string{viewStandard, viewStandard + "_2019", viewStandard + "_201901"}, Remote: []uint64{0, 4, 7}},
			}},
			{Name: "other", Fields: []vC21Field{
				{Name: "g", Views: []string{viewStandard, "bsig_g"}, Local: []uint64{6}, Remote: []uint64{9, 10, 11}},
			}},
		},
		{
			{Name: "idx2", Fields: []vC21Field{
				{Name: "f", Views: []string{viewStandard}, Remote: []uint64{0, 1, 2, 3, 4, 5, 6, 7, 8, 9, 10, 11, 12}},
			}},
		},
	}
	shard, nshards := vGXShardEnv()
	count := 0
	base := []string{"node1", "node2", "node3", "node4", "node5", "node6"}
	for si, schema := range schemas {
		for n := 1; n <= 6; n++ {
			ids := base[:n]
			for r := 1; r <= 4; r++ {
				var cases []vC21Case
				// adds: an id sorting before all, between each neighbouring pair, after all
				adds := []string{"node0"}
				for i := 1; i < n; i++ {
					adds = append(adds, fmt.Sprintf("node%d5", i)) // node15 sorts between node1 and node2, ...
				}
				adds = append(adds, "node9")
				for _, a := range adds {
					cases = append(cases, vC21Case{IDs: ids, R: r, Action: resizeJobActionAdd, Target: a})
				}
				for _, rm := range ids {
					if n == 1 {
						break // the only node is the coordinator; nodeLeave refuses (TestVerifC21_CoordinatorLeave)
					}
					cases = append(cases, vC21Case{IDs: ids, R: r, Action: resizeJobActionRemove, Target: rm})
				}
				for ci, cs := range cases {
					count++
					if count%nshards != shard {
						continue
					}
					cs.Schema = schema
					cs.Coord = ids[(ci+r)%n]
					if cs.Action == resizeJobActionRemove && cs.Coord == cs.Target {
						cs.Coord = ids[(ci+r+1)%n] // nodeLeave never plans the removal of the coordinator itself
					}
					// simulate resize + cleanup on one resulting node (added node / coordinator / a survivor, rotating)
					if cs.Action == resizeJobActionAdd {
						cs.CleanOn = []string{[]string{cs.Target, cs.Coord}[(ci+r)%2]}
					} else {
						var rest []string
						for _, id := range ids {
							if id != cs.Target {
								rest = append(rest, id)
							}
						}
						// prefer a surviving non-coordinator (it learns the new membership from a status message)
						var foll []string
						for _, id := range rest {
							if id != cs.Coord {
								foll = append(foll, id)
							}
						}
						if len(foll) > 0 {
							cs.CleanOn = []string{foll[(ci+r)%len(foll)]}
						} else {
							cs.CleanOn = []string{rest[(ci+r)%len(rest)]}
						}
					}
					if si == 1 && ci%3 != 0 {
						cs.CleanOn = nil
					}
					res := vC21Check(t, dir, cs)
					vC21Record(cs, res, "grid")
				}
			}
		}
	}
	vkit.Extra("exhaustive", true)
	vkit.Extra("bounds", "members node1..nodeN (N=1..6) x replicas 1..4 x every add position and every remove x 2 fixed schemas")
}

// TestVerifC21_Random: generated ids, schema, shard sets, action.
func TestVerifC21_Random(t *testing.T) {
	defer vkit.Flush()
	dir, err := ioutil.TempDir("", "verif-c21-")
	if err != nil {
		t.Fatal(err)
	}
	defer os.RemoveAll(dir)
	shardSet := rapid.SliceOfNDistinct(rapid.Uint64Range(0, 12), 0, 6, func(s uint64) uint64 { return s })
	rapid.Check(t, func(t *rapid.T) {
		n := rapid.IntRange(1, 6).Draw(t, "n")
		ids := rapid.SliceOfNDistinct(rapid.SampledFrom(vC21IDPool), n, n, func(s string) string { return s }).Draw(t, "ids")
		sort.Strings(ids)
		cs := vC21Case{IDs: ids, R: rapid.IntRange(1, 4).Draw(t, "replicas")}
		cs.Coord = rapid.SampledFrom(ids).Draw(t, "coordinator")
		if n > 1 && rapid.Bool().Draw(t, "remove") {
			cs.Action = resizeJobActionRemove
			var others []string
			for _, id := range ids {
				if id != cs.Coord { // nodeLeave never plans the removal of the coordinator itself
					others = append(others, id)
				}
			}
			cs.Target = rapid.SampledFrom(others).Draw(t, "removed")
		} else {
			cs.Action = resizeJobActionAdd
			var free []string
			for _, id := range vC21IDPool {
				if !vGXHas(ids, id) {
					free = append(free, id)
				}
			}
			cs.Target = rapid.SampledFrom(free).Draw(t, "added")
		}
		nIdx := rapid.IntRange(1, 2).Draw(t, "indexes")
		for i := 0; i < nIdx; i++ {
			ix := vC21Index{Name: []string{"i", "users"}[i]}
			nF := rapid.IntRange(1, 3).Draw(t, "fields")
			for k := 0; k < nF; k++ {
				f := vC21Field{Name: fmt.Sprintf("f%d", k)}
				nV := rapid.IntRange(0, 3).Draw(t, "views")
				f.Views = []string{viewStandard, viewStandard + "_2019", viewStandard + "_20190102"}[:nV]
				f.Remote = shardSet.Draw(t, "remoteShards")
				if nV > 0 && rapid.IntRange(0, 3).Draw(t, "withLocal") == 0 {
					f.Local = rapid.SliceOfNDistinct(rapid.Uint64Range(0, 12), 0, 2, func(s uint64) uint64 { return s }).Draw(t, "localShards")
				}
				sort.Slice(f.Remote, func(a, b int) bool { return f.Remote[a] < f.Remote[b] })
				ix.Fields = append(ix.Fields, f)
			}
			cs.Schema = append(cs.Schema, ix)
		}
		var after []string
		for _, id := range ids {
			if !(cs.Action == resizeJobActionRemove && id == cs.Target) {
				after = append(after, id)
			}
		}
		if cs.Action == resizeJobActionAdd {
			after = append(after, cs.Target)
		}
		if rapid.IntRange(0, 2).Draw(t, "cleanup") == 0 {
			cs.CleanOn = []string{rapid.SampledFrom(after).Draw(t, "cleanOn")}
		}
		res := vC21Check(t, dir, cs)
		vC21Record(cs, res, "random")
	})
}

// TestVerifC21_CoordinatorLeave: nodeLeave of the coordinator itself is refused and changes nothing.
func TestVerifC21_CoordinatorLeave(t *testing.T) {
	defer vkit.Flush()
	dir, err := ioutil.TempDir("", "verif-c21-")
	if err != nil {
		t.Fatal(err)
	}
	defer os.RemoveAll(dir)
	for n := 1; n <= 4; n++ {
		for r := 1; r <= 3; r++ {
			ids := []string{"node0", "node1", "node2", "node3"}[:n]
			schema := []vC21Index{{Name: "i", Fields: []vC21Field{{Name: "f", Views: []string{viewStandard}, Local: []uint64{0}, Remote: []uint64{1, 2, 3}}}}}
			hdir, _ := ioutil.TempDir(dir, "coord-")
			h := vC21Holder(t, hdir, schema, nil)
			c := vC21Cluster(ids, r, "node0", h)
			c.Coordinator = "node0"
			c.Path = hdir
			c.Topology = newTopology()
			for _, id := range ids {
				c.Topology.addID(id)
			}
			c.state = ClusterStateNormal
			err := c.nodeLeave("node0")
			k := vkit.NewCase().Key("coordleave", n, r)
			k.Class("coordinator-leave").NT(true).Sample(map[string]interface{}{"members": ids, "replicas": r, "leave": "node0 (coordinator)"})
			if err == nil {
				t.Fatalf("nodeLeave(coordinator) accepted with members %v", ids)
			}
			if got := c.nodeIDs(); fmt.Sprint(got) != fmt.Sprint(ids) || c.state != ClusterStateNormal || c.currentJob != nil || len(c.joiningLeavingNodes) != 0 {
				t.Fatalf("refused nodeLeave(coordinator) changed the cluster: members %v state %s job %v", got, c.state, c.currentJob)
			}
			k.Done()
			h.Close()
		}
	}
}
