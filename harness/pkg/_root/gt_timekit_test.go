package pilosa

// Shared helpers of group gT (C18, C19): an independent reading of time view
// names ("standard_YYYY[MM[DD[HH]]]") as half-open UTC intervals.

import (
	"fmt"
	"sort"
	"strconv"
	"strings"
	"time"
)

// vgtQuanta are the 10 valid non-empty time quanta.
var vgtQuanta = []TimeQuantum{"Y", "YM", "YMD", "YMDH", "M", "MD", "MDH", "D", "DH", "H"}

// vgtFinest returns the finest unit of a quantum.
func vgtFinest(q TimeQuantum) rune { return rune(q[len(q)-1]) }

// vgtCoarsest returns the coarsest unit of a quantum.
func vgtCoarsest(q TimeQuantum) rune { return rune(q[0]) }

// vgtTrunc truncates t (UTC) to the start of its unit.
func vgtTrunc(t time.Time, unit rune) time.Time {
	y, m, d := t.Date()
	switch unit {
	case 'Y':
		return time.Date(y, 1, 1, 0, 0, 0, 0, time.UTC)
	case 'M':
		return time.Date(y, m, 1, 0, 0, 0, 0, time.UTC)
	case 'D':
		return time.Date(y, m, d, 0, 0, 0, 0, time.UTC)
	case 'H':
		return time.Date(y, m, d, t.Hour(), 0, 0, 0, time.UTC)
	}
	panic("unit")
}

// vgtNext returns the start of the unit following the unit that starts at t
// (t must be truncated to unit). Only time.Date normalisation is trusted.
func vgtNext(t time.Time, unit rune) time.Time {
	y, m, d := t.Date()
	switch unit {
	case 'Y':
		return time.Date(y+1, 1, 1, 0, 0, 0, 0, time.UTC)
	case 'M':
		return time.Date(y, m+1, 1, 0, 0, 0, 0, time.UTC)
	case 'D':
		return time.Date(y, m, d+1, 0, 0, 0, 0, time.UTC)
	case 'H':
		return time.Date(y, m, d, t.Hour()+1, 0, 0, 0, time.UTC)
	}
	panic("unit")
}

// vgtAdd advances a unit-aligned time by n units.
func vgtAdd(t time.Time, unit rune, n int) time.Time {
	y, m, d := t.Date()
	switch unit {
	case 'Y':
		return time.Date(y+n, m, d, t.Hour(), 0, 0, 0, time.UTC)
	case 'M':
		return time.Date(y, m+time.Month(n), d, t.Hour(), 0, 0, 0, time.UTC)
	case 'D':
		return time.Date(y, m, d+n, t.Hour(), 0, 0, 0, time.UTC)
	case 'H':
		return time.Date(y, m, d, t.Hour()+n, 0, 0, 0, time.UTC)
	}
	panic("unit")
}

type vgtInterval struct {
	Name       string
	Unit       rune
	Start, End time.Time
}

// vgtParseView decodes prefix_YYYY[MM[DD[HH]]] with its own digit parser.
func vgtParseView(prefix, name string) (vgtInterval, error) {
	iv := vgtInterval{Name: name}
	if !strings.HasPrefix(name, prefix+"_") {
		return iv, fmt.Errorf("view %q lacks prefix %q", name, prefix+"_")
	}
	s := name[len(prefix)+1:]
	for _, c := range s {
		if c < '0' || c > '9' {
			return iv, fmt.Errorf("view %q: non-digit in time part", name)
		}
	}
	num := func(a, b int) int { n, _ := strconv.Atoi(s[a:b]); return n }
	switch len(s) {
	case 4:
		iv.Unit = 'Y'
		iv.Start = time.Date(num(0, 4), 1, 1, 0, 0, 0, 0, time.UTC)
	case 6:
		iv.Unit = 'M'
		if mo := num(4, 6); mo < 1 || mo > 12 {
			return iv, fmt.Errorf("view %q: month out of range", name)
		}
		iv.Start = time.Date(num(0, 4), time.Month(num(4, 6)), 1, 0, 0, 0, 0, time.UTC)
	case 8, 10:
		iv.Unit = 'D'
		h := 0
		if len(s) == 10 {
			iv.Unit = 'H'
			h = num(8, 10)
			if h > 23 {
				return iv, fmt.Errorf("view %q: hour out of range", name)
			}
		}
		iv.Start = time.Date(num(0, 4), time.Month(num(4, 6)), num(6, 8), h, 0, 0, 0, time.UTC)
		// reject normalised dates such as Feb 30
		if y, m, d := iv.Start.Date(); y != num(0, 4) || int(m) != num(4, 6) || d != num(6, 8) {
			return iv, fmt.Errorf("view %q: not a calendar date", name)
		}
	default:
		return iv, fmt.Errorf("view %q: time part of length %d", name, len(s))
	}
	iv.End = vgtNext(iv.Start, iv.Unit)
	return iv, nil
}

// vgtCheckCover verifies that the views are pairwise disjoint intervals whose
// units belong to q and whose union is exactly [start,end).
func vgtCheckCover(prefix string, views []string, start, end time.Time, q TimeQuantum) error {
	ivs := make([]vgtInterval, 0, len(views))
	for _, v := range views {
		iv, err := vgtParseView(prefix, v)
		if err != nil {
			return err
		}
		if !strings.ContainsRune(string(q), iv.Unit) {
			return fmt.Errorf("view %s has unit %c which is not in quantum %s", v, iv.Unit, q)
		}
		ivs = append(ivs, iv)
	}
	if !start.Before(end) {
		if len(ivs) != 0 {
			return fmt.Errorf("empty range but views %v", views)
		}
		return nil
	}
	sort.SliceStable(ivs, func(i, j int) bool { return ivs[i].Start.Before(ivs[j].Start) })
	cur := start
	for _, iv := range ivs {
		if iv.Start.Before(cur) {
			if iv.Start.Before(start) {
				return fmt.Errorf("view %s starts before the range start %s", iv.Name, start.Format("2006-01-02T15"))
			}
			return fmt.Errorf("view %s overlaps an earlier view (covered up to %s)", iv.Name, cur.Format("2006-01-02T15"))
		}
		if iv.Start.After(cur) {
			return fmt.Errorf("gap: [%s,%s) is not covered", cur.Format("2006-01-02T15"), iv.Start.Format("2006-01-02T15"))
		}
		cur = iv.End
	}
	if cur.Before(end) {
		return fmt.Errorf("gap: [%s,%s) is not covered", cur.Format("2006-01-02T15"), end.Format("2006-01-02T15"))
	}
	if cur.After(end) {
		return fmt.Errorf("views reach %s, beyond the range end %s", cur.Format("2006-01-02T15"), end.Format("2006-01-02T15"))
	}
	return nil
}

// vgtUnitsUsed returns the distinct units of the views, e.g. "DH".
func vgtUnitsUsed(prefix string, views []string) string {
	seen := map[rune]bool{}
	for _, v := range views {
		if iv, err := vgtParseView(prefix, v); err == nil {
			seen[iv.Unit] = true
		}
	}
	out := ""
	for _, u := range "YMDH" {
		if seen[u] {
			out += string(u)
		}
	}
	return out
}

// vgtCrossing classifies calendar boundaries inside (start,end].
func vgtCrossing(start, end time.Time) (monthEnd, yearEnd, leapDay bool) {
	if !start.Before(end) {
		return
	}
	last := end.Add(-time.Hour)
	if start.Year() != last.Year() {
		yearEnd = true
	}
	if start.Year() != last.Year() || start.Month() != last.Month() {
		monthEnd = true
	}
	for y := start.Year(); y <= last.Year(); y++ {
		ld := time.Date(y, 2, 29, 0, 0, 0, 0, time.UTC)
		if ld.Month() != 2 {
			continue
		}
		if ld.Before(end) && ld.Add(24*time.Hour).After(start) {
			leapDay = true
		}
	}
	return
}
