package pilosa

// Deterministic witnesses of the fragment-level defects found by the gfrag checks (C07, C10, C12, C13).
// Each fails while its defect exists.

import (
	"context"
	"os"
	"testing"

	"github.com/pilosa/pilosa/pql"
	"github.com/pilosa/pilosa/roaring"
	"github.com/pilosa/pilosa/syswrap"
)

func vgfWitnessFragment(t *testing.T, kind, cache string, cacheSize uint32, maxOpN int) (*fragment, func()) {
	t.Helper()
	dir, err := os.MkdirTemp(os.Getenv("VERIF_RUNDIR"), "vgfw-")
	if err != nil {
		t.Fatal(err)
	}
	flags := byte(0)
	if kind == vgfBSI {
		flags = 1
		cache = CacheTypeNone
	}
	f := newFragment(dir+"/frag", "i", "f", viewStandard, 0, flags)
	f.CacheType = cache
	f.CacheSize = cacheSize
	f.MaxOpN = maxOpN
	f.RowAttrStore = &memAttrStore{store: make(map[uint64]map[string]interface{})}
	switch kind {
	case vgfMutex:
		f.mutexVector = newRowsVector(f)
	case vgfBool:
		f.mutexVector = newBoolVector(f)
	}
	if err := f.Open(); err != nil {
		t.Fatal(err)
	}
	return f, func() { f.Close(); os.RemoveAll(dir) }
}

// D7: importValue leaves BSI rows in the row cache. Small path: the rowSet misses the top value row (bitDepth+1);
// large path: no row is invalidated at all.
func TestVerifWitness_D7(t *testing.T) {
	t.Run("small", func(t *testing.T) {
		f, done := vgfWitnessFragment(t, vgfBSI, "", 0, defaultFragmentMaxOpN)
		defer done()
		const depth = 3
		if _, err := f.setValue(0, depth, 5); err != nil { // 101: top value row 4 set
			t.Fatal(err)
		}
		if row, _ := f.rangeOp(pql.EQ, depth, 5); len(row.Columns()) != 1 { // caches rows 0..4
			t.Fatalf("value == 5: %v", row.Columns())
		}
		if err := f.importValue([]uint64{0}, []int64{1}, depth, false); err != nil {
			t.Fatal(err)
		}
		if v, _, _ := f.value(0, depth); v != 1 {
			t.Fatalf("value = %d, want 1", v)
		}
		if row, _ := f.rangeOp(pql.EQ, depth, 1); len(row.Columns()) != 1 {
			t.Fatalf("after importing 1 over 5: columns with value == 1: %v, want [0]", row.Columns())
		}
		if sum, _, _ := f.sum(nil, depth); sum != 1 {
			t.Fatalf("after importing 1 over 5: sum = %d, want 1", sum)
		}
	})
	t.Run("large", func(t *testing.T) {
		f, done := vgfWitnessFragment(t, vgfBSI, "", 0, 2) // MaxOpN 2: every import takes the snapshotting path
		defer done()
		const depth = 3
		if _, err := f.setValue(0, depth, 5); err != nil {
			t.Fatal(err)
		}
		if sum, _, _ := f.sum(nil, depth); sum != 5 {
			t.Fatalf("sum = %d, want 5", sum)
		}
		if err := f.importValue([]uint64{0}, []int64{-1}, depth, false); err != nil {
			t.Fatal(err)
		}
		if sum, _, _ := f.sum(nil, depth); sum != -1 {
			t.Fatalf("after importing -1 over 5 (large path): sum = %d, want -1", sum)
		}
	})
}

// D11: write paths that do not invalidate the cached block checksum.
func TestVerifWitness_D11(t *testing.T) {
	check := func(t *testing.T, f *fragment, what string) {
		t.Helper()
		got := vgfBlocksString(f.Blocks())
		f.InvalidateChecksums()
		if want := vgfBlocksString(f.Blocks()); got != want {
			t.Fatalf("after %s: Blocks() = %s, recomputed = %s", what, got, want)
		}
	}
	t.Run("importRoaring", func(t *testing.T) {
		f, done := vgfWitnessFragment(t, vgfSet, CacheTypeRanked, 100, defaultFragmentMaxOpN)
		defer done()
		f.mustSetBits(1, 1)
		f.Blocks()
		if err := f.importRoaring(context.Background(), vgfPilosaRoaring([]uint64{1*ShardWidth + 2}, false), false); err != nil {
			t.Fatal(err)
		}
		check(t, f, "importRoaring")
	})
	t.Run("setRow", func(t *testing.T) {
		f, done := vgfWitnessFragment(t, vgfSet, CacheTypeRanked, 100, defaultFragmentMaxOpN)
		defer done()
		f.mustSetBits(1, 1)
		f.Blocks()
		if _, err := f.setRow(NewRow(2, 3), 1); err != nil {
			t.Fatal(err)
		}
		check(t, f, "setRow")
	})
	t.Run("clearRow", func(t *testing.T) {
		f, done := vgfWitnessFragment(t, vgfSet, CacheTypeRanked, 100, defaultFragmentMaxOpN)
		defer done()
		f.mustSetBits(1, 1)
		f.mustSetBits(2, 1)
		f.Blocks()
		if _, err := f.clearRow(1); err != nil {
			t.Fatal(err)
		}
		check(t, f, "clearRow")
	})
	t.Run("importValueLarge", func(t *testing.T) {
		f, done := vgfWitnessFragment(t, vgfBSI, "", 0, 2)
		defer done()
		if _, err := f.setValue(0, 3, 5); err != nil {
			t.Fatal(err)
		}
		f.Blocks()
		if err := f.importValue([]uint64{0}, []int64{2}, 3, false); err != nil {
			t.Fatal(err)
		}
		check(t, f, "importValue (large path)")
	})
}

func vgfTopIDs(t *testing.T, f *fragment, ids ...uint64) map[uint64]uint64 {
	t.Helper()
	pairs, err := f.top(topOptions{RowIDs: ids})
	if err != nil {
		t.Fatal(err)
	}
	m := map[uint64]uint64{}
	for _, p := range pairs {
		m[p.ID] = p.Count
	}
	return m
}

// D14: the rank cache ignores counts below its threshold (threshold >= 1, so also 0) instead of dropping the entry:
// TopN(ids) keeps reporting the old count.
func TestVerifWitness_D14(t *testing.T) {
	t.Run("clearImportEmptiesRow", func(t *testing.T) {
		f, done := vgfWitnessFragment(t, vgfSet, CacheTypeRanked, 100, defaultFragmentMaxOpN)
		defer done()
		f.mustSetBits(3, 1, 2)
		if got := vgfTopIDs(t, f, 3); got[3] != 2 {
			t.Fatalf("TopN(ids=[3]) = %v, want 3:2", got)
		}
		if err := f.bulkImport([]uint64{3, 3}, []uint64{1, 2}, &ImportOptions{Clear: true}); err != nil {
			t.Fatal(err)
		}
		if got := vgfTopIDs(t, f, 3); len(got) != 0 {
			t.Fatalf("row 3 was emptied by a clear-import, TopN(ids=[3]) = %v, want nothing", got)
		}
	})
	t.Run("clearBitBelowThreshold", func(t *testing.T) {
		f, done := vgfWitnessFragment(t, vgfSet, CacheTypeRanked, 1, defaultFragmentMaxOpN)
		defer done()
		f.mustSetBits(1, 1, 2, 3)
		f.mustSetBits(2, 1, 2, 3)
		f.RecalculateCache() // two rows of 3 columns, cache size 1: one stays cached, threshold becomes 3
		for _, r := range []uint64{1, 2} {
			if _, err := f.clearBit(r, 1); err != nil {
				t.Fatal(err)
			}
		}
		if got := vgfTopIDs(t, f, 1, 2); got[1] != 2 || got[2] != 2 {
			t.Fatalf("rows 1 and 2 hold 2 columns each, TopN(ids=[1,2]) = %v", got)
		}
	})
}

// DF2: importRoaring updates the count cache with cache.Get(row)+delta, which is wrong whenever the row is not cached
// (delta is negative for clears, so the count wraps around), and it does not raise maxRowID.
func TestVerifWitness_DF2(t *testing.T) {
	t.Run("count", func(t *testing.T) {
		f, done := vgfWitnessFragment(t, vgfSet, CacheTypeLRU, 1, defaultFragmentMaxOpN)
		defer done()
		f.mustSetBits(1, 1, 2, 3)
		f.mustSetBits(2, 1) // LRU of size 1: row 1 is evicted
		if err := f.importRoaring(context.Background(), vgfPilosaRoaring([]uint64{1*ShardWidth + 1}, false), true); err != nil {
			t.Fatal(err)
		}
		if got := vgfTopIDs(t, f, 1); got[1] != 2 {
			t.Fatalf("row 1 holds 2 columns after a roaring clear-import, TopN(ids=[1]) = %v", got)
		}
	})
	t.Run("maxRowID", func(t *testing.T) {
		f, done := vgfWitnessFragment(t, vgfSet, CacheTypeRanked, 100, defaultFragmentMaxOpN)
		defer done()
		f.mustSetBits(0, 0)
		if err := f.importRoaring(context.Background(), vgfPilosaRoaring([]uint64{199*ShardWidth + 1}, false), false); err != nil {
			t.Fatal(err)
		}
		if r, n := f.maxRow(NewRow(0, 1)); r != 199 || n != 1 {
			t.Fatalf("maxRow(filter={0,1}) = (%d,%d), want (199,1)", r, n)
		}
	})
}

// D15: bulkImportMutex: the last entry for a column loses when it equals the stored row and an earlier entry
// of the same batch already scheduled a change.
func TestVerifWitness_D15(t *testing.T) {
	f, done := vgfWitnessFragment(t, vgfMutex, CacheTypeRanked, 100, defaultFragmentMaxOpN)
	defer done()
	f.mustSetBits(2, 7)
	if err := f.bulkImport([]uint64{1, 2}, []uint64{7, 7}, &ImportOptions{}); err != nil {
		t.Fatal(err)
	}
	if got := f.rows(0, filterColumn(7)); len(got) != 1 || got[0] != 2 {
		t.Fatalf("column 7 held row 2; import [(1,7),(2,7)]: column 7 now holds %v, want [2] (last write)", got)
	}
}

// DF1: fragment.rows lists rows that hold no bits: a clear-import of an unset bit (RemoveN creates the container)
// or a clear that empties a container leaves an empty container behind, and rows() reports its row.
func TestVerifWitness_DF1(t *testing.T) {
	f, done := vgfWitnessFragment(t, vgfSet, CacheTypeRanked, 100, defaultFragmentMaxOpN)
	defer done()
	if err := f.bulkImport([]uint64{1}, []uint64{1}, &ImportOptions{Clear: true}); err != nil {
		t.Fatal(err)
	}
	if got := f.rows(0); len(got) != 0 {
		t.Fatalf("rows(0) of a fragment without bits = %v", got)
	}
	f.mustSetBits(3, 5)
	if _, err := f.clearBit(3, 5); err != nil {
		t.Fatal(err)
	}
	if got := f.rows(0); len(got) != 0 {
		t.Fatalf("after set and clear of (3,5): rows(0) = %v, want none", got)
	}
}

// DF3: bulk imports and setRow do not raise maxRowID, so maxRow/minRow never look at the new rows.
func TestVerifWitness_DF3(t *testing.T) {
	t.Run("bulkImport", func(t *testing.T) {
		f, done := vgfWitnessFragment(t, vgfMutex, CacheTypeRanked, 100, defaultFragmentMaxOpN)
		defer done()
		if err := f.bulkImport([]uint64{0, 1}, []uint64{0, 0}, &ImportOptions{}); err != nil {
			t.Fatal(err)
		}
		if r, n := f.maxRow(NewRow(0)); r != 1 || n != 1 {
			t.Fatalf("column 0 holds row 1 after the import; maxRow(filter={0}) = (%d,%d), want (1,1)", r, n)
		}
	})
	t.Run("setRow", func(t *testing.T) {
		f, done := vgfWitnessFragment(t, vgfSet, CacheTypeRanked, 100, defaultFragmentMaxOpN)
		defer done()
		f.mustSetBits(0, 0)
		if _, err := f.setRow(NewRow(0, 1), 3); err != nil {
			t.Fatal(err)
		}
		if r, n := f.maxRow(NewRow(0, 1)); r != 3 || n != 2 {
			t.Fatalf("maxRow(filter={0,1}) = (%d,%d) after setRow into row 3, want (3,2)", r, n)
		}
	})
}

// DF4: setRow with a source row that has no segment for this shard removes the row's containers but leaves the row
// cache (and count cache, checksum, snapshot request) untouched.
func TestVerifWitness_DF4(t *testing.T) {
	f, done := vgfWitnessFragment(t, vgfSet, CacheTypeRanked, 100, defaultFragmentMaxOpN)
	defer done()
	f.mustSetBits(2, 65537)
	if got := f.row(2).Columns(); len(got) != 1 {
		t.Fatalf("row(2) = %v", got)
	}
	if _, err := f.setRow(NewRow(), 2); err != nil { // e.g. Store(Row(g=1), f=2) where g has no fragment in this shard
		t.Fatal(err)
	}
	if got := f.row(2).Columns(); len(got) != 0 {
		t.Fatalf("row 2 was replaced by an empty row, row(2) = %v", got)
	}
	if got := vgfTopIDs(t, f, 2); len(got) != 0 {
		t.Fatalf("row 2 was replaced by an empty row, TopN(ids=[2]) = %v", got)
	}
}

// DF5: clearRow reports changed=true for a row without bits when a clear left an empty container behind.
func TestVerifWitness_DF5(t *testing.T) {
	f, done := vgfWitnessFragment(t, vgfSet, CacheTypeRanked, 100, defaultFragmentMaxOpN)
	defer done()
	if err := f.bulkImport([]uint64{1}, []uint64{65536}, &ImportOptions{Clear: true}); err != nil {
		t.Fatal(err)
	}
	if changed, err := f.clearRow(1); err != nil || changed {
		t.Fatalf("clearRow(1) on a row that never held a bit = (%v,%v), want (false,nil)", changed, err)
	}
}

func vgfFileEqualsStorage(t *testing.T, f *fragment, what string) {
	t.Helper()
	data, err := os.ReadFile(f.path)
	if err != nil {
		t.Fatal(err)
	}
	dec := roaring.NewFileBitmap()
	if err := dec.UnmarshalBinary(data); err != nil {
		t.Fatal(err)
	}
	if got, want := dec.Slice(), f.storage.Slice(); !vgfEqU(got, want) {
		t.Fatalf("%s: the data file decodes to %v, memory holds %v (a clean restart loses the difference)", what, got, want)
	}
}

// DF6: importRoaring never reopens the data file. Over the open-file limit (syswrap max file count) the file is closed
// between operations and the op-log writer is nil, so the roaring import changes memory but is not logged.
func TestVerifWitness_DF6(t *testing.T) {
	syswrap.SetMaxFileCount(0)
	defer syswrap.SetMaxFileCount(vgfDefaultMaxFileCount)
	f, done := vgfWitnessFragment(t, vgfSet, CacheTypeRanked, 100, defaultFragmentMaxOpN)
	defer done()
	f.mustSetBits(0, 0)
	vgfFileEqualsStorage(t, f, "after setBit")
	if err := f.importRoaring(context.Background(), vgfPilosaRoaring([]uint64{1}, false), false); err != nil {
		t.Fatal(err)
	}
	vgfFileEqualsStorage(t, f, "after importRoaring over the file limit")
}

// DF7: over the open-file limit a snapshot triggered in the middle of a write operation (opN > MaxOpN) closes the data
// file again (openStorage: mustClose -> safeClose, OpWriter = nil); the bits the operation writes afterwards are not logged.
func TestVerifWitness_DF7(t *testing.T) {
	syswrap.SetMaxFileCount(0)
	defer syswrap.SetMaxFileCount(vgfDefaultMaxFileCount)
	f, done := vgfWitnessFragment(t, vgfBSI, "", 0, 2)
	defer done()
	if _, err := f.setValue(0, 10, 1000); err != nil {
		t.Fatal(err)
	}
	vgfFileEqualsStorage(t, f, "after setValue(0, 1000) with MaxOpN=2 over the file limit")
}
