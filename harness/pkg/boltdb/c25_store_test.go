package boltdb_test

// C25 — Attributes merge, persist and diff correctly (store level).
//
// State machine on boltdb.NewAttrStore. Two stores A and B receive generated
// histories of SetAttrs/SetBulkAttrs (mixed value types, nil deletes), reads of
// present and absent ids, Close+Open. The harness trashes every map the store
// returned and every map it handed to the store (poison keys, overwritten and
// deleted entries): none of that may ever be observable through the store.
// Oracle: a plain map model (ints coerced to int64, as documented by
// attr_test.go), and the block laws of the property statement.

import (
	"bytes"
	"fmt"
	"io/ioutil"
	"os"
	"path/filepath"
	"reflect"
	"sort"
	"strings"
	"testing"

	"github.com/pilosa/pilosa"
	"github.com/pilosa/pilosa/boltdb"
	"github.com/pilosa/pilosa/internal/vkit"
	"pgregory.net/rapid"
)

// vc25TempDir returns a fresh directory, on tmpfs when available (bolt fsyncs every update).
func vc25TempDir(t interface{ Fatalf(string, ...interface{}) }) string {
	base := ""
	if st, err := os.Stat("/dev/shm"); err == nil && st.IsDir() {
		base = "/dev/shm"
	}
	dir, err := ioutil.TempDir(base, "verif-c25-")
	if err != nil {
		dir, err = ioutil.TempDir("", "verif-c25-")
		if err != nil {
			t.Fatalf("tempdir: %v", err)
		}
	}
	return dir
}

var vc25IDs = []uint64{0, 1, 2, 98, 99, 100, 101, 150, 199, 200, 201, 299, 300, 1000, 1<<32 + 5, 1 << 40}
var vc25Keys = []string{"a", "b", "c", "x", "long_key_name", "ünï", "k k"}

// vc25Val is a generated attribute value: what is passed to the store and what must come back.
type vc25Val struct {
	In   interface{} // value handed to the store (nil = delete)
	Want interface{} // value the store must return (nil = key absent)
	Desc string
}

func vc25GenVal(t *rapid.T, label string) vc25Val {
	switch rapid.IntRange(0, 9).Draw(t, label+"_kind") {
	case 0, 1:
		return vc25Val{nil, nil, "nil"}
	case 2:
		s := rapid.SampledFrom([]string{"", "v", "w", "ünï ✓", strings.Repeat("s", 300)}).Draw(t, label+"_s")
		return vc25Val{s, s, fmt.Sprintf("string(%q)", s)}
	case 3:
		v := rapid.SampledFrom([]int64{0, 1, -1, 2, 1 << 40, -1 << 63, 1<<63 - 1}).Draw(t, label+"_i64")
		return vc25Val{v, v, fmt.Sprintf("int64(%d)", v)}
	case 4:
		v := rapid.SampledFrom([]int{0, 1, -1, 2, 1 << 40}).Draw(t, label+"_int")
		return vc25Val{v, int64(v), fmt.Sprintf("int(%d)", v)}
	case 5:
		v := rapid.SampledFrom([]uint64{0, 1, 2, 1 << 40, 1<<63 - 1}).Draw(t, label+"_u64")
		return vc25Val{v, int64(v), fmt.Sprintf("uint64(%d)", v)}
	case 6:
		v := rapid.SampledFrom([]uint{0, 1, 2, 77}).Draw(t, label+"_uint")
		return vc25Val{v, int64(v), fmt.Sprintf("uint(%d)", v)}
	case 7:
		v := rapid.Bool().Draw(t, label+"_b")
		return vc25Val{v, v, fmt.Sprintf("bool(%v)", v)}
	default:
		v := rapid.SampledFrom([]float64{0, 1, 1.5, -2.25, 1e300, 5e-324, 0.1}).Draw(t, label+"_f")
		return vc25Val{v, v, fmt.Sprintf("float64(%v)", v)}
	}
}

type vc25KV struct {
	K string
	V vc25Val
}

// vc25GenAttrs draws 0..4 key/value pairs with distinct keys.
func vc25GenAttrs(t *rapid.T, label string, minN int) []vc25KV {
	n := rapid.IntRange(minN, 4).Draw(t, label+"_n")
	var out []vc25KV
	used := map[string]bool{}
	for i := 0; i < n; i++ {
		k := rapid.SampledFrom(vc25Keys).Draw(t, fmt.Sprintf("%s_k%d", label, i))
		if used[k] {
			continue
		}
		used[k] = true
		out = append(out, vc25KV{k, vc25GenVal(t, fmt.Sprintf("%s_v%d", label, i))})
	}
	return out
}

func vc25InMap(kvs []vc25KV) map[string]interface{} {
	m := make(map[string]interface{}, len(kvs))
	for _, kv := range kvs {
		m[kv.K] = kv.V.In
	}
	return m
}

func vc25DescKVs(kvs []vc25KV) string {
	var parts []string
	for _, kv := range kvs {
		parts = append(parts, fmt.Sprintf("%q:%s", kv.K, kv.V.Desc))
	}
	return "{" + strings.Join(parts, ", ") + "}"
}

// vc25Model is the reference: attrs per id, and the ids ever touched by a write.
type vc25Model struct {
	attrs   map[uint64]map[string]interface{}
	touched map[uint64]bool
}

func vc25NewModel() *vc25Model {
	return &vc25Model{attrs: map[uint64]map[string]interface{}{}, touched: map[uint64]bool{}}
}

// apply merges kvs into id; returns whether a nil removed an existing key.
func (m *vc25Model) apply(id uint64, kvs []vc25KV) (deletedExisting bool) {
	m.touched[id] = true
	cur := m.attrs[id]
	if cur == nil {
		cur = map[string]interface{}{}
		m.attrs[id] = cur
	}
	for _, kv := range kvs {
		if kv.V.Want == nil {
			if _, ok := cur[kv.K]; ok {
				deletedExisting = true
			}
			delete(cur, kv.K)
		} else {
			cur[kv.K] = kv.V.Want
		}
	}
	return deletedExisting
}

func (m *vc25Model) get(id uint64) map[string]interface{} {
	out := map[string]interface{}{}
	for k, v := range m.attrs[id] {
		out[k] = v
	}
	return out
}

// vc25Side is one store under test with its model.
type vc25Side struct {
	name   string
	path   string
	store  pilosa.AttrStore
	model  *vc25Model
	poison int
}

func (s *vc25Side) open(t *rapid.T) {
	s.store = boltdb.NewAttrStore(s.path)
	if err := s.store.Open(); err != nil {
		t.Fatalf("%s: Open: %v", s.name, err)
	}
}

// trash makes a map handed out by / given to the store useless: poison key, overwritten and deleted entries.
func (s *vc25Side) trash(m map[string]interface{}) {
	if m == nil {
		return
	}
	keys := make([]string, 0, len(m))
	for k := range m {
		keys = append(keys, k)
	}
	sort.Strings(keys)
	for i, k := range keys {
		if i%2 == 0 {
			m[k] = "__trashed"
		} else {
			delete(m, k)
		}
	}
	s.poison++
	m[fmt.Sprintf("__poison%d", s.poison)] = int64(666)
	m["a"] = "__poison_a"
}

func vc25FmtAttrs(m map[string]interface{}) string {
	if m == nil {
		return "nil"
	}
	keys := make([]string, 0, len(m))
	for k := range m {
		keys = append(keys, k)
	}
	sort.Strings(keys)
	var b bytes.Buffer
	b.WriteString("{")
	for i, k := range keys {
		if i > 0 {
			b.WriteString(", ")
		}
		fmt.Fprintf(&b, "%q:%T(%v)", k, m[k], m[k])
	}
	b.WriteString("}")
	return b.String()
}

// read checks Attrs(id) against the model and then trashes the returned map.
func (s *vc25Side) read(t *rapid.T, id uint64, ctx string) {
	got, err := s.store.Attrs(id)
	if err != nil {
		t.Fatalf("%s: Attrs(%d) %s: %v", s.name, id, ctx, err)
	}
	want := s.model.get(id)
	if got == nil {
		t.Fatalf("%s: Attrs(%d) %s returned a nil map, want non-nil %s", s.name, id, ctx, vc25FmtAttrs(want))
	}
	if !reflect.DeepEqual(got, want) {
		t.Fatalf("%s: Attrs(%d) %s = %s, want %s", s.name, id, ctx, vc25FmtAttrs(got), vc25FmtAttrs(want))
	}
	s.trash(got)
}

func (s *vc25Side) setAttrs(t *rapid.T, id uint64, kvs []vc25KV) bool {
	in := vc25InMap(kvs)
	if err := s.store.SetAttrs(id, in); err != nil {
		t.Fatalf("%s: SetAttrs(%d, %s): %v", s.name, id, vc25DescKVs(kvs), err)
	}
	s.trash(in)
	// An empty update carries no attribute; apply() then only marks the id as written
	// (whether such an id shows up in BlockData with empty attrs is left open by the property).
	return s.model.apply(id, kvs)
}

type vc25BulkItem struct {
	ID  uint64
	KVs []vc25KV
}

func (s *vc25Side) setBulk(t *rapid.T, items []vc25BulkItem) bool {
	in := map[uint64]map[string]interface{}{}
	for _, it := range items {
		in[it.ID] = vc25InMap(it.KVs)
	}
	if err := s.store.SetBulkAttrs(in); err != nil {
		t.Fatalf("%s: SetBulkAttrs(%v): %v", s.name, items, err)
	}
	for _, it := range items {
		s.trash(in[it.ID])
	}
	del := false
	for _, it := range items {
		if s.model.apply(it.ID, it.KVs) {
			del = true
		}
	}
	for _, it := range items {
		delete(in, it.ID)
	}
	return del
}

// blockIDs returns every block worth probing: blocks of touched ids plus two never-written ones.
func vc25CandidateBlocks(models ...*vc25Model) []uint64 {
	set := map[uint64]bool{4: true, 77: true}
	for _, m := range models {
		for id := range m.touched {
			set[id/100] = true
		}
	}
	out := make([]uint64, 0, len(set))
	for b := range set {
		out = append(out, b)
	}
	sort.Slice(out, func(i, j int) bool { return out[i] < out[j] })
	return out
}

// checkBlocks verifies BlockData and Blocks of one store against its model and
// returns (pristine BlockData copies per block, checksum per block listed by Blocks()).
func (s *vc25Side) checkBlocks(t *rapid.T, cand []uint64) (map[uint64]map[uint64]map[string]interface{}, map[uint64][]byte) {
	data := map[uint64]map[uint64]map[string]interface{}{}
	for _, b := range cand {
		bd, err := s.store.BlockData(b)
		if err != nil {
			t.Fatalf("%s: BlockData(%d): %v", s.name, b, err)
		}
		// every id of the model with attributes must be listed, with exactly its attributes
		for id, attrs := range s.model.attrs {
			if id/100 != b || len(attrs) == 0 {
				continue
			}
			got, ok := bd[id]
			if !ok {
				t.Fatalf("%s: BlockData(%d) does not list id %d which holds %s", s.name, b, id, vc25FmtAttrs(attrs))
			}
			if !reflect.DeepEqual(got, s.model.get(id)) {
				t.Fatalf("%s: BlockData(%d)[%d] = %s, want %s", s.name, b, id, vc25FmtAttrs(got), vc25FmtAttrs(attrs))
			}
		}
		// everything listed must belong to the block, have been written, and carry the model's attributes
		cp := map[uint64]map[string]interface{}{}
		for id, got := range bd {
			if id/100 != b {
				t.Fatalf("%s: BlockData(%d) lists id %d of block %d", s.name, b, id, id/100)
			}
			if !s.model.touched[id] {
				t.Fatalf("%s: BlockData(%d) lists id %d which was never written (attrs %s)", s.name, b, id, vc25FmtAttrs(got))
			}
			want := s.model.get(id)
			if len(got) != 0 || len(want) != 0 {
				if !reflect.DeepEqual(got, want) {
					t.Fatalf("%s: BlockData(%d)[%d] = %s, want %s", s.name, b, id, vc25FmtAttrs(got), vc25FmtAttrs(want))
				}
			}
			c := map[string]interface{}{}
			for k, v := range got {
				c[k] = v
			}
			cp[id] = c
			s.trash(got)
		}
		data[b] = cp
	}
	blocks, err := s.store.Blocks()
	if err != nil {
		t.Fatalf("%s: Blocks(): %v", s.name, err)
	}
	sums := map[uint64][]byte{}
	for i, blk := range blocks {
		if i > 0 && blocks[i-1].ID >= blk.ID {
			t.Fatalf("%s: Blocks() not strictly ascending: %d then %d", s.name, blocks[i-1].ID, blk.ID)
		}
		if len(blk.Checksum) == 0 {
			t.Fatalf("%s: Blocks() block %d has an empty checksum", s.name, blk.ID)
		}
		sums[blk.ID] = append([]byte(nil), blk.Checksum...)
		bd, probed := data[blk.ID]
		if !probed {
			t.Fatalf("%s: Blocks() lists block %d in which nothing was ever written", s.name, blk.ID)
		}
		if len(bd) == 0 {
			t.Fatalf("%s: Blocks() lists block %d but BlockData(%d) is empty", s.name, blk.ID, blk.ID)
		}
	}
	for _, b := range cand {
		if _, listed := sums[b]; !listed && len(data[b]) > 0 {
			t.Fatalf("%s: BlockData(%d) holds %d ids but Blocks() does not list block %d", s.name, b, len(data[b]), b)
		}
	}
	// a second Blocks() call (after the trashing above) must give identical checksums
	again, err := s.store.Blocks()
	if err != nil {
		t.Fatalf("%s: Blocks(): %v", s.name, err)
	}
	if len(again) != len(blocks) {
		t.Fatalf("%s: Blocks() changed between two calls without a write: %d then %d blocks", s.name, len(blocks), len(again))
	}
	for _, blk := range again {
		if !bytes.Equal(sums[blk.ID], blk.Checksum) {
			t.Fatalf("%s: checksum of block %d changed between two calls without a write", s.name, blk.ID)
		}
	}
	return data, sums
}

// TestVerifC25_Store is the state machine.
func TestVerifC25_Store(t *testing.T) {
	defer vkit.Flush()
	rapid.Check(t, func(t *rapid.T) {
		dir := vc25TempDir(t)
		defer os.RemoveAll(dir)
		a := &vc25Side{name: "A", path: filepath.Join(dir, "a.db"), model: vc25NewModel()}
		b := &vc25Side{name: "B", path: filepath.Join(dir, "b.db"), model: vc25NewModel()}
		a.open(t)
		b.open(t)
		defer func() { a.store.Close(); b.store.Close() }()

		c := vkit.NewCase()
		defer c.Done()
		var trace []string
		nt := false
		nOps := rapid.IntRange(1, 24).Draw(t, "nOps")
		poisonedAbsentRead := false
		var lastSetID uint64
		var lastSetKVs []vc25KV
		reopened := false
		for i := 0; i < nOps; i++ {
			// which stores receive the op: mostly both (so that equal blocks are common), sometimes one
			target := rapid.SampledFrom([]string{"AB", "AB", "AB", "AB", "A", "B"}).Draw(t, fmt.Sprintf("target%d", i))
			sides := []*vc25Side{}
			if strings.Contains(target, "A") {
				sides = append(sides, a)
			}
			if strings.Contains(target, "B") {
				sides = append(sides, b)
			}
			switch op := rapid.SampledFrom([]string{"set", "set", "set", "bulk", "bulk", "read", "read", "readAbsent", "reopen", "blocks", "swap", "viaOther"}).Draw(t, fmt.Sprintf("op%d", i)); op {
			case "set":
				id := rapid.SampledFrom(vc25IDs).Draw(t, "id")
				kvs := vc25GenAttrs(t, "set", 0)
				if lastSetKVs != nil && rapid.IntRange(0, 3).Draw(t, "repeatLastSet") == 0 {
					// the same update again: SetAttrs' "already present" early return
					id, kvs = lastSetID, lastSetKVs
					c.Class("repeatedSet")
				}
				lastSetID, lastSetKVs = id, kvs
				trace = append(trace, fmt.Sprintf("%s.SetAttrs(%d,%s)", target, id, vc25DescKVs(kvs)))
				for _, s := range sides {
					if s.setAttrs(t, id, kvs) {
						nt = true
						c.Class("deleteExisting")
					}
					s.read(t, id, "after SetAttrs")
				}
				c.Class("op:set")
			case "bulk":
				n := rapid.IntRange(0, 4).Draw(t, "bulkN")
				var items []vc25BulkItem
				seen := map[uint64]bool{}
				for j := 0; j < n; j++ {
					id := rapid.SampledFrom(vc25IDs).Draw(t, fmt.Sprintf("bid%d", j))
					if seen[id] {
						continue
					}
					seen[id] = true
					items = append(items, vc25BulkItem{id, vc25GenAttrs(t, fmt.Sprintf("bulk%d", j), 0)})
				}
				desc := ""
				for _, it := range items {
					desc += fmt.Sprintf("%d:%s ", it.ID, vc25DescKVs(it.KVs))
				}
				trace = append(trace, fmt.Sprintf("%s.SetBulkAttrs(%s)", target, desc))
				for _, s := range sides {
					if s.setBulk(t, items) {
						nt = true
						c.Class("deleteExisting")
					}
					for _, it := range items {
						s.read(t, it.ID, "after SetBulkAttrs")
					}
				}
				c.Class("op:bulk")
			case "viaOther":
				// the same logical update through the other entry point / another integer type:
				// A uses SetAttrs with int64, B uses SetBulkAttrs with int.
				id := rapid.SampledFrom(vc25IDs).Draw(t, "id")
				k := rapid.SampledFrom(vc25Keys).Draw(t, "k")
				v := rapid.SampledFrom([]int{0, 1, -1, 2, 1 << 40}).Draw(t, "v")
				trace = append(trace, fmt.Sprintf("A.SetAttrs(%d,{%q:int64(%d)}) B.SetBulkAttrs(same as int)", id, k, v))
				a.setAttrs(t, id, []vc25KV{{k, vc25Val{int64(v), int64(v), "int64"}}})
				b.setBulk(t, []vc25BulkItem{{id, []vc25KV{{k, vc25Val{v, int64(v), "int"}}}}})
				a.read(t, id, "after SetAttrs")
				b.read(t, id, "after SetBulkAttrs")
				c.Class("op:viaOther")
			case "swap":
				// A: id1<-m1, id2<-m2; B: id1<-m2, id2<-m1 (same multiset of values inside one block)
				base := rapid.SampledFrom([]uint64{0, 100, 200}).Draw(t, "swapBase")
				m1 := vc25GenAttrs(t, "swap1", 1)
				m2 := vc25GenAttrs(t, "swap2", 1)
				trace = append(trace, fmt.Sprintf("swap at %d: %s / %s", base, vc25DescKVs(m1), vc25DescKVs(m2)))
				a.setAttrs(t, base+1, m1)
				a.setAttrs(t, base+2, m2)
				b.setAttrs(t, base+1, m2)
				b.setAttrs(t, base+2, m1)
				c.Class("op:swap")
			case "read":
				id := rapid.SampledFrom(vc25IDs).Draw(t, "id")
				trace = append(trace, fmt.Sprintf("%s.Attrs(%d)", target, id))
				for _, s := range sides {
					s.read(t, id, "")
					s.read(t, id, "(second read, first result was trashed)")
					if len(s.model.attrs[id]) == 0 {
						if poisonedAbsentRead {
							nt = true
						}
						poisonedAbsentRead = true
					}
				}
				c.Class("op:read")
			case "readAbsent":
				// ids that no write ever touches
				id := rapid.SampledFrom([]uint64{7, 8, 150 + 1, 9999, 1<<40 + 1}).Draw(t, "absentID")
				trace = append(trace, fmt.Sprintf("%s.Attrs(%d) [absent]", target, id))
				for _, s := range sides {
					s.read(t, id, "(never written)")
					if poisonedAbsentRead {
						nt = true
					}
					poisonedAbsentRead = true
				}
				c.Class("op:readAbsent")
			case "reopen":
				trace = append(trace, target+".Close+Open")
				for _, s := range sides {
					if err := s.store.Close(); err != nil {
						t.Fatalf("%s: Close: %v", s.name, err)
					}
					s.open(t)
					if len(s.model.touched) > 0 {
						reopened = true
					}
				}
				c.Class("op:reopen")
			case "blocks":
				trace = append(trace, "blocks")
				vc25CompareStores(t, c, a, b)
				c.Class("op:blocks")
			}
		}
		// final sweep: every id of the pool on both stores, then the block laws
		for _, s := range []*vc25Side{a, b} {
			for _, id := range vc25IDs {
				s.read(t, id, "(final sweep)")
			}
			s.read(t, 7, "(final sweep, never written)")
		}
		if vc25CompareStores(t, c, a, b) {
			nt = true
		}
		if reopened {
			nt = true
			c.Class("reopenWithData")
		}
		for _, m := range []*vc25Model{a.model, b.model} {
			for _, pair := range [][2]uint64{{99, 100}, {199, 200}, {299, 300}} {
				if len(m.attrs[pair[0]]) > 0 && len(m.attrs[pair[1]]) > 0 {
					nt = true
					c.Class("blockEdgePair")
				}
			}
		}
		c.Key("c25store", strings.Join(trace, ";"))
		c.NT(nt)
		if len(trace) > 12 {
			trace = trace[:12]
		}
		c.Sample(map[string]interface{}{"ops": trace})
	})
}

// vc25CompareStores checks the block laws on both stores and the checksum law
// between them. Returns true when at least one block was equal-and-non-empty
// and at least one differed (the interesting mixture).
func vc25CompareStores(t *rapid.T, c *vkit.Case, a, b *vc25Side) bool {
	cand := vc25CandidateBlocks(a.model, b.model)
	da, sa := a.checkBlocks(t, cand)
	db, sb := b.checkBlocks(t, cand)
	eq, ne := 0, 0
	for _, blk := range cand {
		ca, oka := sa[blk]
		cb, okb := sb[blk]
		if !oka && !okb {
			continue
		}
		sameData := reflect.DeepEqual(da[blk], db[blk])
		sameSum := oka && okb && bytes.Equal(ca, cb)
		if sameData && !sameSum {
			t.Fatalf("block %d: BlockData equal on A and B (%d ids) but checksums differ: %x vs %x", blk, len(da[blk]), ca, cb)
		}
		if !sameData && sameSum {
			t.Fatalf("block %d: checksums equal (%x) but BlockData differs: A=%v B=%v", blk, ca, da[blk], db[blk])
		}
		if sameData {
			eq++
		} else {
			ne++
		}
	}
	if eq > 0 {
		c.Class("blocks:someEqual")
	}
	if ne > 0 {
		c.Class("blocks:someDiffer")
	}
	return eq > 0 && ne > 0
}

// TestVerifWitness_D24: maps returned by Attrs are shared with the store.
func TestVerifWitness_D24(t *testing.T) {
	dir := vc25TempDir(t)
	defer os.RemoveAll(dir)
	s := boltdb.NewAttrStore(filepath.Join(dir, "w.db"))
	if err := s.Open(); err != nil {
		t.Fatal(err)
	}
	defer s.Close()
	m7, err := s.Attrs(7)
	if err != nil {
		t.Fatal(err)
	}
	m7["leak"] = "x" // the caller owns the returned map
	m8, err := s.Attrs(8)
	if err != nil {
		t.Fatal(err)
	}
	if len(m8) != 0 {
		t.Fatalf("Attrs(8) on an empty store = %v after the caller wrote to the map returned by Attrs(7)", m8)
	}
	// present id, cache miss after a reopen: the returned map must not be the cached one
	if err := s.SetAttrs(1, map[string]interface{}{"a": int64(1)}); err != nil {
		t.Fatal(err)
	}
	s.Close()
	s = boltdb.NewAttrStore(filepath.Join(dir, "w.db"))
	if err := s.Open(); err != nil {
		t.Fatal(err)
	}
	m1, err := s.Attrs(1)
	if err != nil {
		t.Fatal(err)
	}
	m1["leak"] = "y"
	again, err := s.Attrs(1)
	if err != nil {
		t.Fatal(err)
	}
	if !reflect.DeepEqual(again, map[string]interface{}{"a": int64(1)}) {
		t.Fatalf("Attrs(1) = %v after the caller wrote to the previously returned map, want {a:1}", again)
	}
}
