package ctl

// C30 — exporting every shard of a set field as CSV (ctl.ExportCommand) and importing the output
// (ctl.ImportCommand) into an empty field of the same type yields the same bits and keys.
// Oracle: the generated set of (row, column) pairs (keys or ids); read back through a second export
// (parsed with encoding/csv), through Rows(f) and through Row(f=...) queries.

import (
	"bytes"
	"context"
	"encoding/csv"
	"fmt"
	"sort"
	"strconv"
	"strings"
	"testing"

	"github.com/pilosa/pilosa"
	"github.com/pilosa/pilosa/internal/vkit"
	"github.com/pilosa/pilosa/test"
	"pgregory.net/rapid"
)

// vC30Keys: commas, quotes, spaces, newlines, Unicode, long strings. No "\r" (outside the stated key domain:
// encoding/csv normalises \r\n) and no empty key (the import command documents blank first fields as blank rows).
var vC30Keys = []string{
	"a", "b", "k1", "1", "007", "b c", " lead", "trail ", "  ", "com,ma", ",", `q"uote`, `"`, `""`, `"quoted"`,
	"new\nline", "\n", "tab\there", "ünï-cødé", "日本語", "emoji-🙂", "x,\"y\"\nz", `back\slash`, `\.`, "'single'", "#hash", "a=b",
	strings.Repeat("long-", 80), "Ünï,\"q\"\n 混合",
}

var vC30Cols = []uint64{0, 1, 2, 65535, 65536, pilosa.ShardWidth - 1, pilosa.ShardWidth, pilosa.ShardWidth + 1,
	3*pilosa.ShardWidth + 5, 3*pilosa.ShardWidth + 70000, 5 * pilosa.ShardWidth, 5*pilosa.ShardWidth + 9}

var vC30Rows = []uint64{0, 1, 2, 3, 7, 99, 100, 101, 1000}

type vC30Pair struct{ Row, Col string }

func vC30SortPairs(ps []vC30Pair) {
	sort.Slice(ps, func(i, j int) bool {
		if ps[i].Row != ps[j].Row {
			return ps[i].Row < ps[j].Row
		}
		return ps[i].Col < ps[j].Col
	})
}

// vC30ParseCSV reads an export with the standard CSV reader.
func vC30ParseCSV(data []byte) ([]vC30Pair, error) {
	r := csv.NewReader(bytes.NewReader(data))
	r.FieldsPerRecord = -1
	recs, err := r.ReadAll()
	if err != nil {
		return nil, err
	}
	var out []vC30Pair
	for i, rec := range recs {
		if len(rec) != 2 {
			return nil, fmt.Errorf("record %d has %d fields: %q", i, len(rec), rec)
		}
		out = append(out, vC30Pair{rec[0], rec[1]})
	}
	return out, nil
}

func vC30Export(cmd *test.Command, index, field string) ([]byte, error) {
	var stdout, stderr bytes.Buffer
	ec := NewExportCommand(bytes.NewReader(nil), &stdout, &stderr)
	ec.Host = cmd.API.Node().URI.HostPort()
	ec.Index, ec.Field = index, field
	if err := ec.Run(context.Background()); err != nil {
		return nil, fmt.Errorf("%v (stderr: %s)", err, stderr.String())
	}
	return stdout.Bytes(), nil
}

func vC30Import(cmd *test.Command, index, field string, data []byte, bufferSize int, sortFlag bool) error {
	var stdout, stderr bytes.Buffer
	ic := NewImportCommand(bytes.NewReader(data), &stdout, &stderr)
	ic.Host = cmd.API.Node().URI.HostPort()
	ic.Index, ic.Field = index, field
	ic.Paths = []string{"-"}
	ic.Sort = sortFlag
	if bufferSize > 0 {
		ic.BufferSize = bufferSize
	}
	if err := ic.Run(context.Background()); err != nil {
		return fmt.Errorf("%v (stderr: %s)", err, stderr.String())
	}
	return nil
}

func vC30SamePairs(a, b []vC30Pair) bool {
	if len(a) != len(b) {
		return false
	}
	for i := range a {
		if a[i] != b[i] {
			return false
		}
	}
	return true
}

func vC30PQLSafe(s string) bool {
	for _, r := range s {
		if !(r >= 'a' && r <= 'z' || r >= '0' && r <= '9' || r == ' ' || r == ',' || r == '-' || r == '=' || r == '#') {
			return false
		}
	}
	return true
}

func TestVerifC30_RoundTrip(t *testing.T) {
	defer vkit.Flush()
	srcSrv := test.MustRunCommand()
	defer srcSrv.Close()
	otherSrv := test.MustRunCommand()
	defer otherSrv.Close()
	// Decoys (a real server has many indexes): on each server two more indexes whose names sort before ("aa") and
	// after ("zz") every index of the cases and that hold a field "f" of another type / with other keys settings:
	// srcSrv: aa.f int, zz.f set with row keys; otherSrv: aa.f set with row keys (keyed index), zz.f set without keys.
	for _, d := range []struct {
		srv     *test.Command
		index   string
		idxKeys bool
		opts    []pilosa.FieldOption
	}{
		{srcSrv, "aa", false, []pilosa.FieldOption{pilosa.OptFieldTypeInt(-10, 1000)}},
		{srcSrv, "zz", true, []pilosa.FieldOption{pilosa.OptFieldTypeSet(pilosa.CacheTypeRanked, 100), pilosa.OptFieldKeys()}},
		{otherSrv, "aa", true, []pilosa.FieldOption{pilosa.OptFieldTypeSet(pilosa.CacheTypeRanked, 100), pilosa.OptFieldKeys()}},
		{otherSrv, "zz", false, []pilosa.FieldOption{pilosa.OptFieldTypeSet(pilosa.CacheTypeNone, 0)}},
	} {
		if _, err := d.srv.API.CreateIndex(context.Background(), d.index, pilosa.IndexOptions{Keys: d.idxKeys}); err != nil {
			t.Fatalf("creating decoy index: %v", err)
		}
		if _, err := d.srv.API.CreateField(context.Background(), d.index, "f", d.opts...); err != nil {
			t.Fatalf("creating decoy field: %v", err)
		}
	}
	seq := 0
	rapid.Check(t, func(t *rapid.T) {
		rowKeys := rapid.Bool().Draw(t, "rowKeys")
		colKeys := rapid.Bool().Draw(t, "colKeys")
		fresh := rapid.IntRange(0, 2).Draw(t, "freshServer") == 0
		cache := rapid.SampledFrom([]string{pilosa.CacheTypeRanked, pilosa.CacheTypeNone}).Draw(t, "cache")
		n := rapid.IntRange(0, 14).Draw(t, "npairs")
		set := map[vC30Pair]bool{}
		var order []vC30Pair // write order (with duplicates)
		special := false
		shards := map[uint64]bool{}
		for i := 0; i < n; i++ {
			l := fmt.Sprintf("p%d", i)
			var p vC30Pair
			if len(order) > 0 && rapid.IntRange(0, 5).Draw(t, l+".dup") == 0 {
				p = order[rapid.IntRange(0, len(order)-1).Draw(t, l+".which")]
			} else {
				if rowKeys {
					p.Row = rapid.SampledFrom(vC30Keys).Draw(t, l+".rowKey")
				} else {
					p.Row = fmt.Sprint(rapid.SampledFrom(vC30Rows).Draw(t, l+".row"))
				}
				if colKeys {
					p.Col = rapid.SampledFrom(vC30Keys).Draw(t, l+".colKey")
				} else {
					c := rapid.SampledFrom(vC30Cols).Draw(t, l+".col")
					shards[c/pilosa.ShardWidth] = true
					p.Col = fmt.Sprint(c)
				}
			}
			if (rowKeys && strings.ContainsAny(p.Row, ",\"\n ") || colKeys && strings.ContainsAny(p.Col, ",\"\n ")) || (rowKeys && !vC30PQLSafe(p.Row)) || (colKeys && !vC30PQLSafe(p.Col)) {
				special = true
			}
			order = append(order, p)
			set[p] = true
		}
		var want []vC30Pair
		for p := range set {
			want = append(want, p)
		}
		vC30SortPairs(want)
		c := vkit.NewCase().Key("c30", rowKeys, colKeys, fresh, cache, fmt.Sprintf("%q", order))
		defer c.Done()
		c.Class("rowKeys:%v colKeys:%v", rowKeys, colKeys).ClassIf(fresh, "importIntoOtherServer").ClassIf(special, "specialCharsInKeys").
			ClassIf(len(shards) >= 2, "multiShard").ClassIf(len(want) == 0, "emptyField")
		c.NT(len(want) >= 2 && ((rowKeys || colKeys) && special || len(shards) >= 2))
		c.Sample(map[string]interface{}{"rowKeys": rowKeys, "colKeys": colKeys, "otherServer": fresh, "pairs": fmt.Sprintf("%q", want)})

		seq++
		src, dst := fmt.Sprintf("src%d", seq), fmt.Sprintf("dst%d", seq)
		dstSrv := srcSrv
		if fresh {
			dstSrv = otherSrv
		}
		ctx := context.Background()
		fopts := []pilosa.FieldOption{pilosa.OptFieldTypeSet(cache, 100)}
		if rowKeys {
			fopts = append(fopts, pilosa.OptFieldKeys())
		}
		for _, x := range []struct {
			srv   *test.Command
			index string
		}{{srcSrv, src}, {dstSrv, dst}} {
			if _, err := x.srv.API.CreateIndex(ctx, x.index, pilosa.IndexOptions{Keys: colKeys}); err != nil {
				t.Fatalf("creating index: %v", err)
			}
			if _, err := x.srv.API.CreateField(ctx, x.index, "f", fopts...); err != nil {
				t.Fatalf("creating field: %v", err)
			}
		}
		defer func() {
			_ = srcSrv.API.DeleteIndex(ctx, src)
			_ = dstSrv.API.DeleteIndex(ctx, dst)
		}()

		// write the source field through API.Import (no PQL string handling involved)
		if len(order) > 0 {
			byShard := map[uint64]*pilosa.ImportRequest{}
			var shardList []uint64
			for _, p := range order {
				sh := uint64(0)
				var colID uint64
				if !colKeys {
					colID, _ = strconv.ParseUint(p.Col, 10, 64)
					if !rowKeys {
						sh = colID / pilosa.ShardWidth
					}
				}
				r := byShard[sh]
				if r == nil {
					r = &pilosa.ImportRequest{Index: src, Field: "f", Shard: sh}
					byShard[sh] = r
					shardList = append(shardList, sh)
				}
				if rowKeys {
					r.RowKeys = append(r.RowKeys, p.Row)
				} else {
					id, _ := strconv.ParseUint(p.Row, 10, 64)
					r.RowIDs = append(r.RowIDs, id)
				}
				if colKeys {
					r.ColumnKeys = append(r.ColumnKeys, p.Col)
				} else {
					r.ColumnIDs = append(r.ColumnIDs, colID)
				}
			}
			sort.Slice(shardList, func(i, j int) bool { return shardList[i] < shardList[j] })
			for _, sh := range shardList {
				if err := srcSrv.API.Import(ctx, byShard[sh]); err != nil {
					t.Fatalf("filling the source field (pairs %q): %v", order, err)
				}
			}
		}

		// export every shard
		csv1, err := vC30Export(srcSrv, src, "f")
		if err != nil {
			t.Fatalf("export of pairs %q failed: %v", want, err)
		}
		got1, err := vC30ParseCSV(csv1)
		if err != nil {
			t.Fatalf("export of pairs %q is not valid CSV: %v\n%q", want, err, csv1)
		}
		vC30SortPairs(got1)
		if !vC30SamePairs(got1, want) {
			t.Fatalf("export (rowKeys=%v colKeys=%v) holds pairs %q, want %q\ncsv: %q", rowKeys, colKeys, got1, want, csv1)
		}

		// import the bytes into the empty field
		bufSize := rapid.SampledFrom([]int{0, 1, 3}).Draw(t, "bufferSize")
		sortFlag := rapid.Bool().Draw(t, "sort")
		if err := vC30Import(dstSrv, dst, "f", csv1, bufSize, sortFlag); err != nil {
			t.Fatalf("import of the export of pairs %q failed (rowKeys=%v colKeys=%v): %v\ncsv: %q", want, rowKeys, colKeys, err, csv1)
		}

		// read back: second export is the same multiset of records
		csv2, err := vC30Export(dstSrv, dst, "f")
		if err != nil {
			t.Fatalf("second export failed: %v", err)
		}
		got2, err := vC30ParseCSV(csv2)
		if err != nil {
			t.Fatalf("second export is not valid CSV: %v\n%q", err, csv2)
		}
		vC30SortPairs(got2)
		if !vC30SamePairs(got2, want) {
			t.Fatalf("after export+import (rowKeys=%v colKeys=%v otherServer=%v bufferSize=%d sort=%v) the field holds %q, want %q\nexported csv: %q", rowKeys, colKeys, fresh, bufSize, sortFlag, got2, want, csv1)
		}

		// read back: Rows(f) and Row(f=...) through the query API
		resp, err := dstSrv.API.Query(ctx, &pilosa.QueryRequest{Index: dst, Query: "Rows(f)"})
		if err != nil {
			t.Fatalf("Rows(f): %v", err)
		}
		ri := resp.Results[0].(pilosa.RowIdentifiers)
		var gotRows []string
		if rowKeys {
			gotRows = append(gotRows, ri.Keys...)
		} else {
			for _, id := range ri.Rows {
				gotRows = append(gotRows, fmt.Sprint(id))
			}
		}
		sort.Strings(gotRows)
		wantRowSet := map[string]bool{}
		for _, p := range want {
			wantRowSet[p.Row] = true
		}
		var wantRows []string
		for r := range wantRowSet {
			wantRows = append(wantRows, r)
		}
		sort.Strings(wantRows)
		if fmt.Sprintf("%q", gotRows) != fmt.Sprintf("%q", wantRows) {
			t.Fatalf("after export+import Rows(f) = %q, want %q", gotRows, wantRows)
		}
		for _, r := range wantRows {
			if rowKeys && !vC30PQLSafe(r) {
				continue // reading such keys through PQL text is the subject of C26
			}
			q := fmt.Sprintf("Row(f=%s)", r)
			if rowKeys {
				q = fmt.Sprintf("Row(f=%q)", r)
			}
			resp, err := dstSrv.API.Query(ctx, &pilosa.QueryRequest{Index: dst, Query: q})
			if err != nil {
				t.Fatalf("%s: %v", q, err)
			}
			row := resp.Results[0].(*pilosa.Row)
			var gotCols []string
			if colKeys {
				gotCols = append(gotCols, row.Keys...)
			} else {
				for _, id := range row.Columns() {
					gotCols = append(gotCols, fmt.Sprint(id))
				}
			}
			sort.Strings(gotCols)
			var wantCols []string
			for _, p := range want {
				if p.Row == r {
					wantCols = append(wantCols, p.Col)
				}
			}
			sort.Strings(wantCols)
			if fmt.Sprintf("%q", gotCols) != fmt.Sprintf("%q", wantCols) {
				t.Fatalf("after export+import %s = %q, want %q", q, gotCols, wantCols)
			}
		}
	})
}
