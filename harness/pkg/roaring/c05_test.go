package roaring

// C05 — Replaying the operation log reproduces the in-memory bitmap.
//
// rapid state machine over a bitmap (slice- and B-tree-backed copies side by
// side) whose OpWriter is a bytes.Buffer. After every step
// decode(snapshot bytes ++ log bytes) must equal the live bitmap and the model,
// and the decoded Ops() pair must equal the live pair and the model's counters.
// At the end every prefix of the log that ends on an op boundary must decode to
// the model state after that many ops.

import (
	"bytes"
	"fmt"
	"strings"
	"testing"

	"github.com/pilosa/pilosa/internal/vkit"
	"pgregory.net/rapid"
)

type vc05Boundary struct {
	logLen   int
	m        []uint64
	ops, opN int
}

type vc05Machine struct {
	kinds        []string
	bms          []*Bitmap
	logs         []*bytes.Buffer
	snaps        [][]byte
	snapPristine [][]byte
	m            []uint64
	ops          int
	opN          int
	bounds       []vc05Boundary // shared: both logs must have identical lengths
	keys         []uint64
	offKeys      []uint64
	hist         []string
	classes      map[string]bool
	shortOpSeen  bool // a batch logged shorter than its input / a roaring op with opN != payload cardinality
	nt           bool
}

func (s *vc05Machine) log(format string, args ...interface{}) {
	s.hist = append(s.hist, fmt.Sprintf(format, args...))
	if s.shortOpSeen {
		s.nt = true // "... followed by more ops"
	}
}

func (s *vc05Machine) describe() string {
	return fmt.Sprintf("focus keys %v; history: %s", s.keys, strings.Join(s.hist, "; "))
}

func (s *vc05Machine) mk(i int) *Bitmap {
	if s.kinds[i] == "slice" {
		return NewBitmap()
	}
	return NewBTreeBitmap()
}

func (s *vc05Machine) boundary(t *rapid.T) {
	l := s.logs[0].Len()
	if s.logs[1].Len() != l {
		t.Fatalf("slice and B-tree bitmaps logged different byte counts (%d vs %d)\n%s", l, s.logs[1].Len(), s.describe())
	}
	s.bounds = append(s.bounds, vc05Boundary{logLen: l, m: append([]uint64(nil), s.m...), ops: s.ops, opN: s.opN})
}

func (s *vc05Machine) genVal(t *rapid.T, label string) uint64 {
	kind := rapid.IntRange(0, 9).Draw(t, label+".kind")
	switch {
	case kind <= 3 && len(s.m) > 0:
		v := s.m[rapid.IntRange(0, len(s.m)-1).Draw(t, label+".idx")]
		d := rapid.IntRange(-1, 1).Draw(t, label+".d")
		if d < 0 && v > 0 {
			return v - 1
		}
		if d > 0 && v < ^uint64(0) {
			return v + 1
		}
		return v
	case kind <= 7:
		k := s.keys[rapid.IntRange(0, len(s.keys)-1).Draw(t, label+".k")]
		return k<<16 | uint64(rapid.SampledFrom(vc02Lows).Draw(t, label+".low"))
	default:
		k := s.keys[rapid.IntRange(0, len(s.keys)-1).Draw(t, label+".k")]
		return k<<16 | uint64(rapid.Uint16().Draw(t, label+".low16"))
	}
}

func (s *vc05Machine) genBatch(t *rapid.T, label string, min, max int) []uint64 {
	n := rapid.IntRange(min, max).Draw(t, label+".n")
	out := make([]uint64, n)
	for i := range out {
		out[i] = s.genVal(t, fmt.Sprintf("%s.%d", label, i))
	}
	return out
}

// decodeCheck decodes snapshot++log[:logLen] into a fresh bitmap and compares set and counters.
func (s *vc05Machine) decodeCheck(t *rapid.T, i int, logLen int, wantM []uint64, wantOps, wantOpN int, what string, cross bool) {
	data := append(vr2CopyBytes(s.snaps[i]), s.logs[i].Bytes()[:logLen]...)
	orig := vr2CopyBytes(data)
	targets := []int{i}
	if cross {
		targets = append(targets, 1-i) // the other container collection must replay the same bytes to the same state
	}
	for _, kind := range targets {
		d := s.mk(kind)
		if err := d.UnmarshalBinary(data); err != nil {
			t.Fatalf("%s: decoding snapshot+log of the %s bitmap into a %s bitmap: %v\n%s", what, s.kinds[i], s.kinds[kind], err, s.describe())
		}
		if err := vCheckStructure(d); err != nil {
			t.Fatalf("%s: replayed %s bitmap structure: %v\n%s", what, s.kinds[kind], err, s.describe())
		}
		if cross {
			if got := d.Slice(); !vEq(got, wantM) {
				t.Fatalf("%s: replaying the %s bitmap's log into a %s bitmap gives another set: %s\n%s", what, s.kinds[i], s.kinds[kind], vDiff(got, wantM), s.describe())
			}
		}
		if got := vSliceByContainers(d); !vEq(got, wantM) {
			t.Fatalf("%s: replayed bitmap, container walk: %s\n%s", what, vDiff(got, wantM), s.describe())
		}
		if ops, opN := d.Ops(); ops != wantOps || opN != wantOpN {
			t.Fatalf("%s: replayed Ops()=(%d,%d), want (%d,%d)\n%s", what, ops, opN, wantOps, wantOpN, s.describe())
		}
		if p := vr2FirstDiff(data, orig); p != -1 {
			t.Fatalf("%s: replaying the log wrote into the decoded bytes (a read-only mmap in production) at offset %d\n%s", what, p, s.describe())
		}
	}
}

func (s *vc05Machine) check(t *rapid.T) {
	for i, b := range s.bms {
		if got := vSliceByContainers(b); !vEq(got, s.m) {
			t.Fatalf("live %s bitmap differs from the model: %s\n%s", s.kinds[i], vDiff(got, s.m), s.describe())
		}
		if got := b.Slice(); !vEq(got, s.m) {
			t.Fatalf("live %s bitmap (iterator) differs from the model: %s\n%s", s.kinds[i], vDiff(got, s.m), s.describe())
		}
		if err := vCheckStructure(b); err != nil {
			t.Fatalf("live %s bitmap structure: %v\n%s", s.kinds[i], err, s.describe())
		}
		if ops, opN := b.Ops(); ops != s.ops || opN != s.opN {
			t.Fatalf("live %s bitmap Ops()=(%d,%d), the history wrote %d ops changing %d bits\n%s", s.kinds[i], ops, opN, s.ops, s.opN, s.describe())
		}
		s.decodeCheck(t, i, s.logs[i].Len(), s.m, s.ops, s.opN, "after the last step", len(s.hist)%3 == 0)
		if d := vr2FirstDiff(s.snaps[i], s.snapPristine[i]); d != -1 {
			t.Fatalf("%s bitmap: snapshot bytes were written at offset %d\n%s", s.kinds[i], d, s.describe())
		}
	}
}

// snapshot re-encodes the live bitmaps (what a fragment snapshot does): new snapshot bytes, counters reset, empty log.
func (s *vc05Machine) snapshot(t *rapid.T, mode string) {
	for i, b := range s.bms {
		var buf bytes.Buffer
		if _, err := b.WriteTo(&buf); err != nil {
			t.Fatalf("WriteTo: %v", err)
		}
		s.snaps[i] = buf.Bytes()
		s.snapPristine[i] = vr2CopyBytes(s.snaps[i])
		s.logs[i] = &bytes.Buffer{}
		switch mode {
		case "keep":
			// fragment.snapshot + openStorage(false): same bitmap object goes on
			b.SetOps(0, 0)
		case "reopen":
			// fragment reopen: a new bitmap decoded from (mapped onto) the snapshot
			nb := s.mk(i)
			if err := nb.UnmarshalBinary(s.snaps[i]); err != nil {
				t.Fatalf("reopen: %v\n%s", err, s.describe())
			}
			s.bms[i] = nb
		case "reopenInPlace":
			// fragment.openStorage(true) on the existing storage bitmap
			if err := b.UnmarshalBinary(s.snaps[i]); err != nil {
				t.Fatalf("reopen in place: %v\n%s", err, s.describe())
			}
		}
		s.bms[i].OpWriter = s.logs[i]
	}
	s.ops, s.opN = 0, 0
	s.bounds = nil
	s.boundary(t)
}

func (s *vc05Machine) modelApply(vals []uint64, add bool) []uint64 {
	var changed []uint64
	for _, v := range vals {
		has := vHas(s.m, v)
		if add && !has {
			s.m = vUnion(s.m, []uint64{v})
			changed = append(changed, v)
		} else if !add && has {
			s.m = vDifference(s.m, []uint64{v})
			changed = append(changed, v)
		}
	}
	return changed
}

func (s *vc05Machine) actions() map[string]func(*rapid.T) {
	single := func(name string, add bool) func(*rapid.T) {
		return func(t *rapid.T) {
			vals := s.genBatch(t, name, 1, 3)
			s.log("%s%v", name, vals)
			for _, v := range vals {
				// one op per value, logged whether or not it changes anything
				want := len(s.modelApply([]uint64{v}, add)) > 0
				for i, b := range s.bms {
					var got bool
					var err error
					if add {
						got, err = b.Add(v)
					} else {
						got, err = b.Remove(v)
					}
					if err != nil || got != want {
						t.Fatalf("%s bitmap: %s(%d)=(%v,%v) want %v\n%s", s.kinds[i], name, v, got, err, want, s.describe())
					}
				}
				s.ops++
				s.opN++
				s.boundary(t)
			}
		}
	}
	multi := func(name string, add bool) func(*rapid.T) {
		// Add(a, b, c) / Remove(a, b, c) in one call: three ops
		return func(t *rapid.T) {
			vals := s.genBatch(t, name, 2, 4)
			s.log("%s%v", name, vals)
			want := len(s.modelApply(vals, add)) > 0
			for i, b := range s.bms {
				var got bool
				var err error
				if add {
					got, err = b.Add(append([]uint64(nil), vals...)...)
				} else {
					got, err = b.Remove(append([]uint64(nil), vals...)...)
				}
				if err != nil || got != want {
					t.Fatalf("%s bitmap: %s(%v)=(%v,%v) want %v\n%s", s.kinds[i], name, vals, got, err, want, s.describe())
				}
			}
			s.ops += len(vals)
			s.opN += len(vals)
			// only the end of a multi-value call is recorded as a boundary (the model states in between are not kept)
			s.boundary(t)
		}
	}
	batch := func(name string, add bool) func(*rapid.T) {
		return func(t *rapid.T) {
			vals := s.genBatch(t, name, 1, 8)
			s.log("%s%v", name, vals)
			changed := s.modelApply(vals, add)
			for i, b := range s.bms {
				buf := append([]uint64(nil), vals...)
				var got int
				var err error
				if add {
					got, err = b.AddN(buf...)
				} else {
					got, err = b.RemoveN(buf...)
				}
				if err != nil || got != len(changed) {
					t.Fatalf("%s bitmap: %s(%v)=(%d,%v) want %d\n%s", s.kinds[i], name, vals, got, err, len(changed), s.describe())
				}
				if !vEq(buf[:got], changed) {
					t.Fatalf("%s bitmap: %s(%v) left a[:changed]=%v want %v\n%s", s.kinds[i], name, vals, buf[:got], changed, s.describe())
				}
			}
			s.ops++
			s.opN += len(changed)
			if len(changed) < len(vals) {
				s.shortOpSeen = true
				s.classes["batchLoggedShorterThanInput"] = true
			}
			if len(changed) == 0 {
				s.classes["batchChangesNothing"] = true
			}
			s.boundary(t)
		}
	}
	return map[string]func(*rapid.T){
		"":           s.check,
		"Add":        single("Add", true),
		"Remove":     single("Remove", false),
		"AddMany":    multi("Add", true),
		"RemoveMany": multi("Remove", false),
		"AddN":       batch("AddN", true),
		"RemoveN":    batch("RemoveN", false),
		"Import": func(t *rapid.T) {
			format := rapid.SampledFrom([]string{"pilosa", "pilosaUnopt", "official"}).Draw(t, "imp.format")
			keys := s.keys
			if format == "official" {
				keys = s.offKeys
			}
			sp := vGenBitmapSpec(t, "imp", keys, rapid.IntRange(0, 7).Draw(t, "imp.big") == 0)
			if format == "official" && vr2NonEmptyConts(sp) == 0 {
				t.Skip("an official stream needs a container")
			}
			clear := rapid.Bool().Draw(t, "imp.clear")
			ms := sp.model()
			s.log("ImportRoaringBits(%s %s, clear=%v, log=true)", format, sp.describe(), clear)
			var nChanged int
			if clear {
				nChanged = len(vIntersect(s.m, ms))
				s.m = vDifference(s.m, ms)
			} else {
				nChanged = len(vDifference(ms, s.m))
				s.m = vUnion(s.m, ms)
			}
			for i, b := range s.bms {
				data := vr2Payload(t, sp, format)
				changed, _, err := b.ImportRoaringBits(data, clear, true, 0)
				if err != nil {
					t.Fatalf("%s bitmap: ImportRoaringBits: %v\n%s", s.kinds[i], err, s.describe())
				}
				if changed != nChanged {
					t.Fatalf("%s bitmap: import reports changed=%d want %d\n%s", s.kinds[i], changed, nChanged, s.describe())
				}
				// the payload belongs to the caller; the log holds its own copy of the bytes
				for j := range data {
					data[j] = 0xAA
				}
			}
			s.ops++
			s.opN += nChanged
			if nChanged != len(ms) {
				s.shortOpSeen = true
				s.classes["roaringOpNBelowPayloadCardinality"] = true
			}
			if nChanged == 0 {
				s.classes["importChangesNothing"] = true
			}
			s.classes["import:"+format] = true
			s.boundary(t)
		},
		"Snapshot": func(t *rapid.T) {
			mode := rapid.SampledFrom([]string{"keep", "reopen", "reopenInPlace"}).Draw(t, "snap.mode")
			s.log("Snapshot(%s)", mode)
			s.snapshot(t, mode)
			s.classes["snapshot:"+mode] = true
		},
	}
}

// TestVerifC05_Machine: see the top of this file.
func TestVerifC05_Machine(t *testing.T) {
	defer vkit.Flush()
	rapid.Check(t, func(t *rapid.T) {
		c := vkit.NewCase()
		s := &vc05Machine{kinds: []string{"slice", "btree"}, classes: map[string]bool{}}
		pool := []uint64{1, 2, 16, 17, 65535, 65536, 0x123456789a, maxContainerKey}
		n := rapid.IntRange(1, 3).Draw(t, "nkeys")
		s.keys = vSortUniq64(append([]uint64{0}, rapid.Permutation(pool).Draw(t, "keys")[:n]...))
		for _, k := range s.keys {
			if k < 1<<16 {
				s.offKeys = append(s.offKeys, k)
			}
		}
		// initial contents (already in the first snapshot)
		init := vGenBitmapSpec(t, "init", s.keys, rapid.IntRange(0, 5).Draw(t, "init.big") == 0)
		s.m = init.model()
		s.bms = []*Bitmap{NewBitmap(), NewBTreeBitmap()}
		for _, b := range s.bms {
			b.DirectAddN(append([]uint64(nil), s.m...)...)
		}
		s.logs = []*bytes.Buffer{{}, {}}
		s.snaps = make([][]byte, 2)
		s.snapPristine = make([][]byte, 2)
		s.hist = append(s.hist, "initial "+init.describe())
		s.snapshot(t, rapid.SampledFrom([]string{"keep", "reopen"}).Draw(t, "init.mode"))
		defer func() {
			c.Key("c05", s.keys, strings.Join(s.hist, ";"))
			for cl := range s.classes {
				c.Class(cl)
			}
			c.NT(s.nt)
			h := s.hist
			if len(h) > 14 {
				h = append(append([]string(nil), h[:14]...), fmt.Sprintf("… (%d steps)", len(s.hist)))
			}
			c.Sample(map[string]interface{}{"focusKeys": s.keys, "history": h})
			c.Done()
		}()
		t.Repeat(s.actions())
		// every prefix of the log that ends on an op boundary replays to the state after that many ops
		bounds := s.bounds
		if len(bounds) > 16 {
			// evenly spaced sample, always with the first and the last boundary (cost bound)
			var pick []vc05Boundary
			for j := 0; j < 16; j++ {
				pick = append(pick, bounds[j*(len(bounds)-1)/15])
			}
			bounds = pick
		}
		for _, bd := range bounds {
			for i := range s.bms {
				s.decodeCheck(t, i, bd.logLen, bd.m, bd.ops, bd.opN, fmt.Sprintf("log prefix of %d bytes (%d ops)", bd.logLen, bd.ops), true)
			}
		}
		vkit.Count("prefixesReplayed", len(bounds))
	})
}
