package roaring

// C03, layer (a): derived roaring bitmaps are isolated values.
//
// rapid state machine: 1-3 source bitmaps (plain, B-tree, frozen, optimised,
// or decoded from bytes = containers mapped onto a byte slice); then a random
// interleaving of
//   derive  : Clone, Freeze, Union (1 and n operands), Intersect, Difference, Xor,
//             OffsetRange, Shift, Flip of any live value(s) -> a new live value
//   mutate  : Add/Remove/AddN/RemoveN/DirectAdd…, ImportRoaringBits(set|clear),
//             UnionInPlace, Optimize on any live value (source or derived)
//   remap   : RemapRoaringStorage(nil | bytes of a fresh WriteTo) on a value that is
//             mapped onto a byte slice, after which the old byte slice is
//             overwritten with 0xAA (the model of munmap: a stale pointer shows
//             up as a wrong answer instead of a SIGSEGV)
// Every live value carries the model set it had when it was created, updated
// only by mutations applied to that very value. After every step all live
// values are re-read and compared with their own models.

import (
	"bytes"
	"fmt"
	"strings"
	"testing"

	"github.com/pilosa/pilosa/internal/vkit"
	"pgregory.net/rapid"
)

type vc03Value struct {
	name     string
	b        *Bitmap
	m        []uint64
	backing  []byte // byte slice the bitmap is (partly) mapped onto; nil if none
	pristine []byte
	btree    bool
}

type vc03Share struct {
	a, b string // value names
	key  map[string]uint64
}

type vc03Machine struct {
	keys    []uint64
	vals    []*vc03Value
	nextID  int
	shares  []vc03Share
	hist    []string
	classes map[string]bool
	nt      bool
	opposed bool // sources 0 and 1 hold small vs full/empty containers under the same keys
}

func (s *vc03Machine) log(format string, args ...interface{}) {
	s.hist = append(s.hist, fmt.Sprintf(format, args...))
}

func (s *vc03Machine) describe() string {
	h := s.hist
	if len(h) > 50 {
		h = h[len(h)-50:]
	}
	return "history: " + strings.Join(h, "; ")
}

func vc03ContainerSet(b *Bitmap) map[*Container]uint64 {
	out := map[*Container]uint64{}
	it, _ := b.Containers.Iterator(0)
	for it.Next() {
		k, c := it.Value()
		if c != nil && c != fullContainer {
			out[c] = k
		}
	}
	return out
}

// add registers a new live value and records which containers it shares with the others.
func (s *vc03Machine) add(v *vc03Value) {
	mine := vc03ContainerSet(v.b)
	for _, o := range s.vals {
		theirs := vc03ContainerSet(o.b)
		for c, k := range mine {
			if ok, has := theirs[c]; has {
				s.shares = append(s.shares, vc03Share{a: v.name, b: o.name, key: map[string]uint64{v.name: k, o.name: ok}})
				s.classes["sharedContainer"] = true
			}
		}
	}
	s.vals = append(s.vals, v)
	// keep the population small: forget the oldest derived value
	if len(s.vals) > 7 {
		for i, o := range s.vals {
			if strings.HasPrefix(o.name, "d") {
				s.vals = append(s.vals[:i], s.vals[i+1:]...)
				break
			}
		}
	}
}

// wrote notes that value name was written at the given container keys (nil = all keys / storage remapped).
func (s *vc03Machine) wrote(name string, keys map[uint64]bool) {
	for _, sh := range s.shares {
		k, ok := sh.key[name]
		if !ok {
			continue
		}
		if keys == nil || keys[k] {
			s.nt = true
			s.classes["writeAfterShare"] = true
		}
	}
}

func (s *vc03Machine) pick(t *rapid.T, label string) *vc03Value {
	switch rapid.IntRange(0, 3).Draw(t, label+".how") {
	case 0:
		// the newest value: usually the result of the last derivation
		return s.vals[len(s.vals)-1]
	case 1:
		// one of the first two sources (in "opposed" histories: the small/unfrozen one and the full/empty one)
		if len(s.vals) >= 2 {
			return s.vals[rapid.IntRange(0, 1).Draw(t, label+".src")]
		}
	}
	return s.vals[rapid.IntRange(0, len(s.vals)-1).Draw(t, label)]
}

// vc03OpposedSpec builds a source that holds a container under EVERY key of the pool. role "small": small array/run/bitmap
// containers; role "extreme": full, full-minus-one, empty (existing container without values) or small containers. Two such
// sources meet, key by key, in the short cuts of the container-level intersect/union/difference/xor dispatchers
// (full / empty operand), which hand back one of their operands instead of computing a new container.
func (s *vc03Machine) opposedSpec(t *rapid.T, label, role string) vBitmapSpec {
	var sp vBitmapSpec
	for i, k := range s.keys {
		l := fmt.Sprintf("%s.c%d", label, i)
		shape := "small"
		if role == "extreme" {
			shape = rapid.SampledFrom([]string{"full", "full", "fullMinus1", "empty", "small"}).Draw(t, l+".role")
		}
		var vals []uint16
		switch shape {
		case "full", "fullMinus1":
			hole := -1
			if shape == "fullMinus1" {
				hole = rapid.SampledFrom([]int{0, 1, 63, 64, 32768, 65534, 65535}).Draw(t, l+".hole")
			}
			for v := 0; v < 65536; v++ {
				if v != hole {
					vals = append(vals, uint16(v))
				}
			}
		case "empty":
		default:
			shape, vals = vGenVals(t, l, false)
		}
		sp.Conts = append(sp.Conts, vContSpec{Key: k, Shape: shape, Vals: vals, Typ: vTypeFor(t, l, vals)})
	}
	// encodings whose containers are not frozen yet (a frozen operand hides a missing Freeze)
	sp.Enc = rapid.SampledFrom([]string{"built", "built", "btree", "added", "addedBtree", "optimized", "decoded", "decodedBtree"}).Draw(t, label+".enc")
	return sp
}

func (s *vc03Machine) checkAll(t *rapid.T, step string) {
	for _, v := range s.vals {
		if err := vCheckStructure(v.b); err != nil {
			t.Fatalf("after %s: value %s: structure: %v\n%s", step, v.name, err, s.describe())
		}
		if got := vSliceByContainers(v.b); !vEq(got, v.m) {
			t.Fatalf("after %s: value %s no longer holds its own set: %s\n%s", step, v.name, vDiff(got, v.m), s.describe())
		}
		if got := v.b.Count(); got != uint64(len(v.m)) {
			t.Fatalf("after %s: value %s Count=%d want %d\n%s", step, v.name, got, len(v.m), s.describe())
		}
		if len(v.m) > 0 {
			x := v.m[len(v.m)/2]
			if !v.b.Contains(x) {
				t.Fatalf("after %s: value %s Contains(%d)=false\n%s", step, v.name, x, s.describe())
			}
		}
		if v.backing != nil {
			if d := vr2FirstDiff(v.backing, v.pristine); d != -1 {
				t.Fatalf("after %s: the byte slice value %s is mapped onto (read-only mmap in production) was written at offset %d\n%s", step, v.name, d, s.describe())
			}
		}
	}
}

func (s *vc03Machine) newName(prefix string) string {
	s.nextID++
	return fmt.Sprintf("%s%d", prefix, s.nextID)
}

func (s *vc03Machine) mkSource(t *rapid.T, idx int) *vc03Value {
	label := fmt.Sprintf("src%d", idx)
	var sp vBitmapSpec
	switch {
	case s.opposed && idx == 0:
		sp = s.opposedSpec(t, label, "small")
	case s.opposed && idx == 1:
		sp = s.opposedSpec(t, label, "extreme")
	default:
		sp = vGenBitmapSpec(t, label, s.keys, rapid.IntRange(0, 2).Draw(t, label+".big") == 0)
	}
	v := &vc03Value{name: s.newName("s"), m: sp.model()}
	if rapid.IntRange(0, 2).Draw(t, label+".mapped") == 0 {
		// decoded from bytes we keep: containers are mapped onto v.backing
		plain := sp
		plain.Enc = "built"
		var buf bytes.Buffer
		if _, err := plain.build(t).WriteTo(&buf); err != nil {
			t.Fatalf("WriteTo: %v", err)
		}
		v.backing = buf.Bytes()
		v.pristine = vr2CopyBytes(v.backing)
		v.btree = rapid.Bool().Draw(t, label+".btree")
		if v.btree {
			v.b = NewBTreeBitmap()
		} else {
			v.b = NewBitmap()
		}
		if err := v.b.UnmarshalBinary(v.backing); err != nil {
			t.Fatalf("UnmarshalBinary: %v", err)
		}
		s.log("%s := mapped(btree=%v) %s", v.name, v.btree, sp.describe())
		s.classes["source:mapped"] = true
	} else {
		v.b = sp.build(t)
		s.log("%s := %s", v.name, sp.describe())
		s.classes["source:"+sp.Enc] = true
	}
	return v
}

func (s *vc03Machine) keysOf(vals []uint64) map[uint64]bool {
	out := map[uint64]bool{}
	for _, v := range vals {
		out[v>>16] = true
	}
	return out
}

func (s *vc03Machine) actions() map[string]func(*rapid.T) {
	derive := func(op string, fn func(t *rapid.T, a, b *vc03Value) (*Bitmap, []uint64, string)) func(*rapid.T) {
		return func(t *rapid.T) {
			a := s.pick(t, op+".a")
			b := s.pick(t, op+".b")
			nb, nm, desc := fn(t, a, b)
			v := &vc03Value{name: s.newName("d"), b: nb, m: nm}
			s.log("%s := %s", v.name, desc)
			s.classes["derive:"+op] = true
			// the fresh value is right
			if err := vCheckStructure(nb); err != nil {
				t.Fatalf("%s: structure: %v\n%s", desc, err, s.describe())
			}
			if got := nb.Slice(); !vEq(got, nm) {
				t.Fatalf("%s is wrong: %s\n%s", desc, vDiff(got, nm), s.describe())
			}
			s.add(v)
			s.checkAll(t, desc)
		}
	}
	mutate := func(op string, fn func(t *rapid.T, v *vc03Value) (string, map[uint64]bool)) func(*rapid.T) {
		return func(t *rapid.T) {
			v := s.pick(t, op+".v")
			desc, keys := fn(t, v)
			s.log("%s", desc)
			s.classes["mutate:"+op] = true
			s.wrote(v.name, keys)
			if got := v.b.Slice(); !vEq(got, v.m) {
				t.Fatalf("%s: the mutated value itself is wrong: %s\n%s", desc, vDiff(got, v.m), s.describe())
			}
			s.checkAll(t, desc)
		}
	}
	applyBatch := func(v *vc03Value, vals []uint64, add bool) int {
		n := 0
		for _, x := range vals {
			has := vHas(v.m, x)
			if add && !has {
				v.m = vUnion(v.m, []uint64{x})
				n++
			} else if !add && has {
				v.m = vDifference(v.m, []uint64{x})
				n++
			}
		}
		return n
	}
	genVals := func(t *rapid.T, label string, v *vc03Value, max int) []uint64 {
		n := rapid.IntRange(1, max).Draw(t, label+".n")
		out := make([]uint64, n)
		for i := range out {
			out[i] = vGenPoint(t, fmt.Sprintf("%s.%d", label, i), s.keys, v.m)
		}
		return out
	}
	return map[string]func(*rapid.T){
		"Clone": derive("Clone", func(t *rapid.T, a, _ *vc03Value) (*Bitmap, []uint64, string) {
			return a.b.Clone(), append([]uint64(nil), a.m...), a.name + ".Clone()"
		}),
		"Freeze": derive("Freeze", func(t *rapid.T, a, _ *vc03Value) (*Bitmap, []uint64, string) {
			return a.b.Freeze(), append([]uint64(nil), a.m...), a.name + ".Freeze()"
		}),
		"Union1": derive("Union1", func(t *rapid.T, a, b *vc03Value) (*Bitmap, []uint64, string) {
			return a.b.Union(b.b), vUnion(a.m, b.m), fmt.Sprintf("%s.Union(%s)", a.name, b.name)
		}),
		"UnionN": derive("UnionN", func(t *rapid.T, a, b *vc03Value) (*Bitmap, []uint64, string) {
			c := s.pick(t, "UnionN.c")
			return a.b.Union(b.b, c.b), vUnion(vUnion(a.m, b.m), c.m), fmt.Sprintf("%s.Union(%s,%s)", a.name, b.name, c.name)
		}),
		"Intersect": derive("Intersect", func(t *rapid.T, a, b *vc03Value) (*Bitmap, []uint64, string) {
			return a.b.Intersect(b.b), vIntersect(a.m, b.m), fmt.Sprintf("%s.Intersect(%s)", a.name, b.name)
		}),
		"Difference": derive("Difference", func(t *rapid.T, a, b *vc03Value) (*Bitmap, []uint64, string) {
			return a.b.Difference(b.b), vDifference(a.m, b.m), fmt.Sprintf("%s.Difference(%s)", a.name, b.name)
		}),
		"Xor": derive("Xor", func(t *rapid.T, a, b *vc03Value) (*Bitmap, []uint64, string) {
			return a.b.Xor(b.b), vXor(a.m, b.m), fmt.Sprintf("%s.Xor(%s)", a.name, b.name)
		}),
		"OffsetRange": derive("OffsetRange", func(t *rapid.T, a, _ *vc03Value) (*Bitmap, []uint64, string) {
			ks := append([]uint64{0}, s.keys...)
			if last := s.keys[len(s.keys)-1]; last < maxContainerKey {
				ks = append(ks, last+1)
			}
			i := rapid.IntRange(0, len(ks)-1).Draw(t, "or.s")
			j := rapid.IntRange(i, len(ks)-1).Draw(t, "or.e")
			start, end := ks[i]<<16, ks[j]<<16
			offk := rapid.SampledFrom([]uint64{0, 1, 16}).Draw(t, "or.off")
			if offk+(ks[j]-ks[i]) > maxContainerKey+1 {
				offk = 0 // the shifted range must stay inside the key space (callers shift rows down, never past the end)
			}
			off := offk << 16
			var want []uint64
			for _, v := range vRange(a.m, start, end) {
				want = append(want, v-start+off)
			}
			return a.b.OffsetRange(off, start, end), want, fmt.Sprintf("%s.OffsetRange(%d,%d,%d)", a.name, off, start, end)
		}),
		"Shift": derive("Shift", func(t *rapid.T, a, _ *vc03Value) (*Bitmap, []uint64, string) {
			var want []uint64
			for _, v := range a.m {
				if v != ^uint64(0) {
					want = append(want, v+1)
				}
			}
			nb, err := a.b.Shift(1)
			if err != nil {
				t.Fatalf("Shift: %v", err)
			}
			return nb, want, a.name + ".Shift(1)"
		}),
		"Flip": derive("Flip", func(t *rapid.T, a, _ *vc03Value) (*Bitmap, []uint64, string) {
			if len(a.m) > 20000 {
				t.Skip("Flip is linear in the set and range size")
			}
			start := vGenPoint(t, "flip.s", s.keys, a.m)
			ln := rapid.OneOf(rapid.Uint64Range(0, 300), rapid.Uint64Range(0, 66000)).Draw(t, "flip.len")
			if start > ^uint64(0)-ln-2 {
				start = ^uint64(0) - ln - 2
			}
			end := start + ln
			var want []uint64
			for _, v := range a.m {
				if v < start || v > end {
					want = append(want, v)
				}
			}
			for v := start; v <= end; v++ {
				if !vHas(a.m, v) {
					want = append(want, v)
				}
			}
			want = vSortUniq64(want)
			return a.b.Flip(start, end), want, fmt.Sprintf("%s.Flip(%d,%d)", a.name, start, end)
		}),
		"Add": mutate("Add", func(t *rapid.T, v *vc03Value) (string, map[uint64]bool) {
			vals := genVals(t, "add", v, 3)
			want := applyBatch(v, vals, true) > 0
			// twice the same key in a row is the interesting case for frozen containers
			got, err := v.b.Add(append([]uint64(nil), vals...)...)
			if err != nil || got != want {
				t.Fatalf("%s.Add(%v)=(%v,%v) want %v\n%s", v.name, vals, got, err, want, s.describe())
			}
			return fmt.Sprintf("%s.Add%v", v.name, vals), s.keysOf(vals)
		}),
		"Remove": mutate("Remove", func(t *rapid.T, v *vc03Value) (string, map[uint64]bool) {
			vals := genVals(t, "rm", v, 3)
			want := applyBatch(v, vals, false) > 0
			got, err := v.b.Remove(append([]uint64(nil), vals...)...)
			if err != nil || got != want {
				t.Fatalf("%s.Remove(%v)=(%v,%v) want %v\n%s", v.name, vals, got, err, want, s.describe())
			}
			return fmt.Sprintf("%s.Remove%v", v.name, vals), s.keysOf(vals)
		}),
		"AddN": mutate("AddN", func(t *rapid.T, v *vc03Value) (string, map[uint64]bool) {
			vals := genVals(t, "addn", v, 8)
			want := applyBatch(v, vals, true)
			got, err := v.b.AddN(append([]uint64(nil), vals...)...)
			if err != nil || got != want {
				t.Fatalf("%s.AddN(%v)=(%d,%v) want %d\n%s", v.name, vals, got, err, want, s.describe())
			}
			return fmt.Sprintf("%s.AddN%v", v.name, vals), s.keysOf(vals)
		}),
		"RemoveN": mutate("RemoveN", func(t *rapid.T, v *vc03Value) (string, map[uint64]bool) {
			vals := genVals(t, "rmn", v, 8)
			want := applyBatch(v, vals, false)
			got, err := v.b.RemoveN(append([]uint64(nil), vals...)...)
			if err != nil || got != want {
				t.Fatalf("%s.RemoveN(%v)=(%d,%v) want %d\n%s", v.name, vals, got, err, want, s.describe())
			}
			return fmt.Sprintf("%s.RemoveN%v", v.name, vals), s.keysOf(vals)
		}),
		"Import": mutate("Import", func(t *rapid.T, v *vc03Value) (string, map[uint64]bool) {
			format := rapid.SampledFrom([]string{"pilosa", "pilosaUnopt", "official"}).Draw(t, "imp.format")
			keys := s.keys
			if format == "official" {
				keys = nil
				for _, k := range s.keys {
					if k < 1<<16 {
						keys = append(keys, k)
					}
				}
				if len(keys) == 0 {
					t.Skip("no key fits the official format")
				}
			}
			sp := vGenBitmapSpec(t, "imp", keys, rapid.IntRange(0, 3).Draw(t, "imp.big") == 0)
			if format == "official" && vr2NonEmptyConts(sp) == 0 {
				t.Skip("an official stream needs a container")
			}
			clear := rapid.Bool().Draw(t, "imp.clear")
			ms := sp.model()
			var want int
			if clear {
				want = len(vIntersect(v.m, ms))
				v.m = vDifference(v.m, ms)
			} else {
				want = len(vDifference(ms, v.m))
				v.m = vUnion(v.m, ms)
			}
			data := vr2Payload(t, sp, format)
			got, _, err := v.b.ImportRoaringBits(data, clear, false, 0)
			if err != nil || got != want {
				t.Fatalf("%s.ImportRoaringBits(%s %s clear=%v)=(%d,%v) want %d\n%s", v.name, format, sp.describe(), clear, got, err, want, s.describe())
			}
			for i := range data {
				data[i] = 0xAA
			}
			return fmt.Sprintf("%s.ImportRoaringBits(%s %s, clear=%v)", v.name, format, sp.describe(), clear), s.keysOf(ms)
		}),
		"UnionInPlace": mutate("UnionInPlace", func(t *rapid.T, v *vc03Value) (string, map[uint64]bool) {
			n := rapid.IntRange(1, 3).Draw(t, "uip.n")
			var others []*Bitmap
			var names []string
			keys := map[uint64]bool{}
			for i := 0; i < n; i++ {
				o := s.pick(t, fmt.Sprintf("uip.o%d", i))
				if o == v {
					continue // self-union is not a use the callers make
				}
				others = append(others, o.b)
				names = append(names, o.name)
				v.m = vUnion(v.m, o.m)
				for k := range s.keysOf(o.m) {
					keys[k] = true
				}
			}
			if len(others) == 0 {
				t.Skip("no other operand")
			}
			v.b.UnionInPlace(others...)
			return fmt.Sprintf("%s.UnionInPlace(%s)", v.name, strings.Join(names, ",")), keys
		}),
		"Optimize": mutate("Optimize", func(t *rapid.T, v *vc03Value) (string, map[uint64]bool) {
			v.b.Optimize()
			return v.name + ".Optimize()", nil
		}),
		"Remap": func(t *rapid.T) {
			// only values mapped onto a byte slice; a quarter of the time also values that are not mapped at all
			var cands []*vc03Value
			for _, v := range s.vals {
				if v.backing != nil {
					cands = append(cands, v)
				}
			}
			if len(cands) == 0 || rapid.IntRange(0, 3).Draw(t, "remap.any") == 0 {
				cands = s.vals
			}
			v := cands[rapid.IntRange(0, len(cands)-1).Draw(t, "remap.v")]
			toNew := rapid.Bool().Draw(t, "remap.new")
			var desc string
			old := v.backing
			if toNew {
				var buf bytes.Buffer
				if _, err := v.b.WriteTo(&buf); err != nil {
					t.Fatalf("WriteTo: %v", err)
				}
				data := buf.Bytes()
				if _, err := v.b.RemapRoaringStorage(data); err != nil {
					t.Fatalf("%s.RemapRoaringStorage(new bytes): %v\n%s", v.name, err, s.describe())
				}
				v.backing, v.pristine = data, vr2CopyBytes(data)
				desc = v.name + ".RemapRoaringStorage(bytes of a fresh WriteTo)"
			} else {
				if _, err := v.b.RemapRoaringStorage(nil); err != nil {
					t.Fatalf("%s.RemapRoaringStorage(nil): %v\n%s", v.name, err, s.describe())
				}
				v.backing, v.pristine = nil, nil
				desc = v.name + ".RemapRoaringStorage(nil)"
			}
			if old != nil {
				// munmap of the old storage
				for i := range old {
					old[i] = 0xAA
				}
				desc += " + old bytes overwritten"
				s.classes["remap:oldBytesPoisoned"] = true
			}
			s.log("%s", desc)
			s.classes["remap"] = true
			s.wrote(v.name, nil)
			s.checkAll(t, desc)
		},
	}
}

// TestVerifC03_RoaringIsolation: see the top of this file.
func TestVerifC03_RoaringIsolation(t *testing.T) {
	defer vkit.Flush()
	rapid.Check(t, func(t *rapid.T) {
		c := vkit.NewCase()
		s := &vc03Machine{classes: map[string]bool{}}
		s.keys = vGenKeys(t)
		nsrc := rapid.IntRange(1, 3).Draw(t, "nsources")
		s.opposed = rapid.Bool().Draw(t, "opposed")
		if s.opposed {
			s.classes["opposedSources"] = true
			if nsrc < 2 {
				nsrc = 2
			}
			if len(s.keys) > 3 {
				s.keys = s.keys[:3] // full containers are expensive to re-read after every step
			}
		}
		for i := 0; i < nsrc; i++ {
			s.add(s.mkSource(t, i))
		}
		defer func() {
			c.Key("c03", s.keys, strings.Join(s.hist, ";"))
			for cl := range s.classes {
				c.Class(cl)
			}
			c.NT(s.nt)
			h := s.hist
			if len(h) > 14 {
				h = append(append([]string(nil), h[:14]...), fmt.Sprintf("… (%d steps)", len(s.hist)))
			}
			c.Sample(map[string]interface{}{"keys": s.keys, "history": h})
			c.Done()
		}()
		s.checkAll(t, "building the sources")
		t.Repeat(s.actions())
	})
}
