package roaring

// C06 — in-process companion: malformed roaring data into UnmarshalBinary (stored fragment data, op-log replay)
// and ImportRoaringBits on a B-tree bitmap (exactly what the un-recovered import worker calls). A panic is a failure:
// these entry points run outside any recover. After an accepted input the bitmap must stay usable (the operations the
// server performs next: counting, reading, adding, optimizing and writing a snapshot).

import (
	"bytes"
	"fmt"
	"io/ioutil"
	"runtime/debug"
	"syscall"
	"testing"

	"github.com/pilosa/pilosa/internal/vkit"
	"pgregory.net/rapid"
)

func vc06Try(f func()) (pv interface{}) {
	defer func() {
		if r := recover(); r != nil {
			pv = r
		}
	}()
	f()
	return nil
}

// what the server does with a bitmap after it accepted data
func vc06Use(b *Bitmap) (stage string, pv interface{}) {
	stages := []struct {
		name string
		f    func()
	}{
		{"Count", func() { b.Count() }},
		{"Slice", func() {
			if b.Count() < 1<<21 {
				b.Slice()
			}
		}},
		{"CountRange", func() { b.CountRange(0, 1<<20) }},
		{"Contains", func() { b.Contains(5); b.Contains(65536 + 7) }},
		{"Add", func() { b.DirectAdd(3); b.DirectAdd(17<<16 | 9) }},
		{"Remove", func() { b.DirectRemoveN(3) }},
		{"Clone", func() { b.Clone().Count() }},
		{"Optimize", func() { b.Optimize() }},
		{"WriteTo", func() { b.WriteTo(ioutil.Discard) }},
	}
	for _, s := range stages {
		if pv := vc06Try(s.f); pv != nil {
			return s.name, pv
		}
	}
	return "", nil
}

func TestVerifC06_UnmarshalBinary(t *testing.T) {
	defer vkit.Flush()
	rapid.Check(t, func(t *rapid.T) {
		data, label, seed, unmutated := vc06GenPayload(t)
		c := vkit.NewCase().Key("unmarshal", data)
		defer c.Done()
		for _, cl := range vc06LabelClasses(label) {
			c.Class(cl)
		}
		c.Sample(map[string]interface{}{"mutation": label, "len": len(data), "head": fmt.Sprintf("%x", data[:vc06Min(len(data), 48)])})
		b := NewBitmap()
		var err error
		if pv := vc06Try(func() { err = b.UnmarshalBinary(vc06Exact(data)) }); pv != nil {
			t.Fatalf("UnmarshalBinary panics on %s (%d bytes %x): %v", label, len(data), vc06Head(data), pv)
		}
		c.Class(vc06ErrLabel(err))
		// non-trivial: the input got past the magic/length checks (it was accepted, or rejected by a deeper check)
		c.NT(err == nil || len(data) >= 8)
		if unmutated {
			// self-check of the harness encoders: a valid encoding is accepted and means the generated values
			if err != nil {
				t.Fatalf("harness encoder (%s) produced bytes the decoder rejects: %v (%x)", label, err, vc06Head(data))
			}
			if got, want := b.Slice(), vc06Values(seed); !vc06EqU64(got, want) {
				t.Fatalf("harness encoder (%s): decoded values differ from the generated ones: got %d values, want %d", label, len(got), len(want))
			}
		}
		_, ref := vc06RefDecode(data)
		c.Class("ref:" + ref)
		if err == nil && ref != vc06RefConsistent && vkit.Open("DP10") {
			// accepted although not a consistent encoding: the bitmap is not trustworthy from here on (finding DP10)
			vkit.Excluded("DP10")
			c.Class("DP10-accepted-inconsistent")
			return
		}
		if err == nil {
			if stage, pv := vc06Use(b); pv != nil {
				t.Fatalf("after UnmarshalBinary accepted %s (%d bytes %x) the bitmap panics in %s: %v", label, len(data), vc06Head(data), stage, pv)
			}
		}
	})
}

func vc06Min(a, b int) int {
	if a < b {
		return a
	}
	return b
}

func vc06Head(d []byte) []byte {
	if len(d) > 96 {
		return d[:96]
	}
	return d
}

func vc06EqU64(a, b []uint64) bool {
	if len(a) != len(b) {
		return false
	}
	for i := range a {
		if a[i] != b[i] {
			return false
		}
	}
	return true
}

func TestVerifC06_ImportRoaringBits(t *testing.T) {
	defer vkit.Flush()
	rapid.Check(t, func(t *rapid.T) {
		data, label, _, _ := vc06GenPayload(t)
		clear := rapid.Bool().Draw(t, "clear")
		// existing contents: a few values in the containers the seeds use
		b := NewBTreeBitmap()
		nexist := rapid.IntRange(0, 6).Draw(t, "nexist")
		for i := 0; i < nexist; i++ {
			k := uint64(rapid.SampledFrom([]int{0, 1, 15, 16, 17, 31, 32, 48}).Draw(t, "ekey"))
			b.DirectAdd(k<<16 | uint64(rapid.Uint16().Draw(t, "eval")))
		}
		if rapid.Bool().Draw(t, "efull") {
			for v := uint64(0); v < 5000; v++ {
				b.DirectAdd(16<<16 | v)
			}
		}
		before := b.Slice()
		c := vkit.NewCase().Key("import", clear, nexist, data)
		defer c.Done()
		for _, cl := range vc06LabelClasses(label) {
			c.Class(cl)
		}
		c.ClassIf(clear, "clear")
		c.Sample(map[string]interface{}{"mutation": label, "clear": clear, "len": len(data), "head": fmt.Sprintf("%x", data[:vc06Min(len(data), 48)])})
		var err error
		if pv := vc06Try(func() { _, _, err = b.ImportRoaringBits(vc06Exact(data), clear, false, 16) }); pv != nil {
			t.Fatalf("ImportRoaringBits(clear=%v) panics on %s (%d bytes %x): %v", clear, label, len(data), vc06Head(data), pv)
		}
		c.Class(vc06ErrLabel(err))
		c.NT(err == nil || len(data) >= 8)
		refVals, ref := vc06RefDecode(data)
		c.Class("ref:" + ref)
		if err == nil && ref != vc06RefConsistent && vkit.Open("DP10") {
			vkit.Excluded("DP10")
			c.Class("DP10-accepted-inconsistent")
			return
		}
		if err == nil && ref == vc06RefConsistent {
			// cross-check of the reference reading: import = decode-then-merge
			want := NewBitmap(before...)
			if clear {
				want.DirectRemoveN(refVals...)
			} else {
				want.DirectAddN(refVals...)
			}
			if got := b.Slice(); !vc06EqU64(got, want.Slice()) {
				t.Fatalf("ImportRoaringBits(clear=%v) accepted the consistent encoding %s (%d bytes %x) but the result is not the merge: %d values, want %d", clear, label, len(data), vc06Head(data), len(got), want.Count())
			}
		}
		if stage, pv := vc06Use(b); pv != nil {
			t.Fatalf("after ImportRoaringBits(clear=%v) of %s (%d bytes %x, err=%v) the bitmap panics in %s: %v", clear, label, len(data), vc06Head(data), err, stage, pv)
		}
		if err != nil {
			// a rejected import must leave the data unchanged (vc06Use adds 17<<16|9 and removes/adds 3: undo that view)
			after := NewBitmap(b.Slice()...)
			after.DirectRemoveN(17<<16 | 9)
			want := NewBitmap(before...)
			want.DirectRemoveN(17<<16 | 9)
			want.DirectRemoveN(3)
			after.DirectRemoveN(3)
			if !vc06EqU64(after.Slice(), want.Slice()) {
				if vkit.Open("D6") {
					vkit.Excluded("D6")
					c.Class("D6-partial-import")
					return
				}
				t.Fatalf("ImportRoaringBits(clear=%v) rejected %s (%d bytes %x) with %q but changed the bitmap: %d values before, %d after", clear, label, len(data), vc06Head(data), err, want.Count(), after.Count())
			}
		}
	})
}

// D5 (roaring part): iterators read run counts / take addresses before the bounds check.
func TestVerifWitness_D5_Roaring(t *testing.T) {
	// one run container whose offset points at the last byte / one array container whose offset equals len(data)
	for _, tc := range []struct {
		name string
		enc  vc06Enc
		off  uint32
	}{
		{"run container, offset = len-1", vc06EncodePilosa([]vc06Cont{{Key: 0, Typ: 3, Vals: []uint16{1, 2, 3}}}), 0xffffffff},
		{"array container, offset = len", vc06EncodePilosa([]vc06Cont{{Key: 0, Typ: 1, Vals: []uint16{1}}}), 0xfffffffe},
	} {
		d := append([]byte(nil), tc.enc.Data...)
		off := uint32(len(d))
		if tc.off == 0xffffffff {
			off = uint32(len(d) - 1)
		}
		d[8+12], d[8+13], d[8+14], d[8+15] = byte(off), byte(off>>8), byte(off>>16), byte(off>>24)
		var err error
		if pv := vc06Try(func() { _, _, err = NewBTreeBitmap().ImportRoaringBits(vc06Exact(d), false, false, 16) }); pv != nil {
			t.Fatalf("%s: ImportRoaringBits panics: %v", tc.name, pv)
		}
		if err == nil {
			t.Fatalf("%s: accepted", tc.name)
		}
	}
	_ = bytes.MinRead
}

// vc06Exact returns a copy of d that ends exactly at an inaccessible guard page, with capacity == length:
// a read past the end — also one made through an unsafe pointer, which the Go runtime does not bounds check — faults.
// With debug.SetPanicOnFault the fault is a panic that vc06Try reports together with the input.
var vc06Guard struct {
	region []byte
	usable int
}

func vc06Exact(d []byte) []byte {
	debug.SetPanicOnFault(true)
	page := syscall.Getpagesize()
	if vc06Guard.region == nil {
		usable := 64 * page // 256 KiB: larger than any generated payload
		mem, err := syscall.Mmap(-1, 0, usable+page, syscall.PROT_READ|syscall.PROT_WRITE, syscall.MAP_ANON|syscall.MAP_PRIVATE)
		if err != nil {
			panic(err)
		}
		if err := syscall.Mprotect(mem[usable:], syscall.PROT_NONE); err != nil {
			panic(err)
		}
		vc06Guard.region, vc06Guard.usable = mem, usable
	}
	if len(d) > vc06Guard.usable {
		out := make([]byte, len(d))
		copy(out, d)
		return out[:len(d):len(d)]
	}
	start := vc06Guard.usable - len(d)
	out := vc06Guard.region[start:vc06Guard.usable:vc06Guard.usable]
	copy(out, d)
	return out
}

func vc06LyingCard() []byte {
	// one bitmap container holding the bits 0 and 1 whose header says cardinality 1
	enc := vc06EncodePilosa([]vc06Cont{{Key: 0, Typ: 2, Vals: []uint16{0, 1}}})
	d := vc06Exact(enc.Data)
	d[8+10], d[8+11] = 0, 0 // card-1 = 0
	return d
}

// DP10 (open): stored data whose header cardinality does not match the container is accepted by UnmarshalBinary;
// the next snapshot (WriteTo -> Optimize) panics.
func TestVerifWitness_DP10(t *testing.T) {
	b := NewBitmap()
	if err := b.UnmarshalBinary(vc06LyingCard()); err != nil {
		return // rejected: fine
	}
	if pv := vc06Try(func() { b.WriteTo(ioutil.Discard) }); pv != nil {
		t.Fatalf("UnmarshalBinary accepted a bitmap container with 2 bits and cardinality 1; writing the snapshot then panics: %v", pv)
	}
}

// DP11: the same through the import path (ImportRoaringBits), where the panic happens in the snapshot goroutine of the server.
func TestVerifWitness_DP11(t *testing.T) {
	b := NewBTreeBitmap()
	if _, _, err := b.ImportRoaringBits(vc06LyingCard(), false, false, 16); err != nil {
		return
	}
	if pv := vc06Try(func() { b.WriteTo(ioutil.Discard) }); pv != nil {
		t.Fatalf("ImportRoaringBits accepted a bitmap container with 2 bits and cardinality 1; writing the snapshot then panics: %v", pv)
	}
}

// D6: a rejected import must not leave the containers before the malformed one applied.
func TestVerifWitness_D6(t *testing.T) {
	enc := vc06EncodePilosa([]vc06Cont{{Key: 0, Typ: 1, Vals: []uint16{5}}, {Key: 1, Typ: 1, Vals: []uint16{6}}})
	d := append([]byte(nil), enc.Data...)
	d = vc06Exact(d[:len(d)-2]) // the second container is cut off
	b := NewBTreeBitmap()
	_, _, err := b.ImportRoaringBits(d, false, false, 16)
	if err == nil {
		t.Fatalf("truncated import accepted")
	}
	if n := b.Count(); n != 0 {
		t.Fatalf("ImportRoaringBits rejected the payload (%v) but %d bit(s) of it stay set", err, n)
	}
}
