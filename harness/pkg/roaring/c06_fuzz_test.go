package roaring

// C06 — native fuzz target (thorough tier): arbitrary bytes into both decoders. No panic (the payload ends at a guard
// page, so over-reads through unsafe pointers fault), the input is not modified, a payload that the strict reference
// reading calls consistent imports to exactly its values, and when both decoders accept the same bytes (and no op log
// was replayed) they yield the same set.

import (
	"bytes"
	"testing"
)

func FuzzVerifC06Roaring(f *testing.F) {
	seeds := [][]vc06Cont{
		{{Key: 0, Typ: 1, Vals: []uint16{1, 2, 3}}},
		{{Key: 0, Typ: 3, Vals: []uint16{5, 6, 7, 100, 101}}, {Key: 17, Typ: 1, Vals: []uint16{0, 65535}}},
		{{Key: 1, Typ: 2, Vals: []uint16{0, 1, 2, 3, 4, 5, 6, 7, 8, 9, 4000}}, {Key: 16, Typ: 3, Vals: []uint16{9, 10, 11}}, {Key: 48, Typ: 1, Vals: []uint16{7}}},
	}
	for _, conts := range seeds {
		f.Add(vc06EncodePilosa(conts).Data)
		off := make([]vc06Cont, len(conts))
		for i, c := range conts {
			if c.Typ == 2 {
				c.Typ = 1 // the official reader derives array/bitmap from the cardinality
			}
			off[i] = c
		}
		f.Add(vc06EncodeOfficial(off).Data)
	}
	f.Add([]byte{})
	f.Add([]byte{0x3c})
	f.Fuzz(func(t *testing.T, data []byte) {
		if len(data) > 64<<10 {
			return
		}
		orig := append([]byte(nil), data...)
		refVals, ref := vc06RefDecode(data)

		// import path (what the un-recovered worker goroutine runs)
		imp := NewBTreeBitmap()
		var ierr error
		if pv := vc06Try(func() { _, _, ierr = imp.ImportRoaringBits(vc06Exact(data), false, false, 16) }); pv != nil {
			t.Fatalf("ImportRoaringBits panics on %d bytes %x: %v", len(data), vc06Head(data), pv)
		}
		if ierr == nil {
			if stage, pv := vc06Use(NewBTreeBitmap(imp.Slice()...)); pv != nil {
				t.Fatalf("values imported from %x panic in %s: %v", vc06Head(data), stage, pv)
			}
			if stage, pv := vc06Use(imp.Clone()); pv != nil {
				t.Fatalf("after ImportRoaringBits accepted %d bytes %x the bitmap panics in %s: %v", len(data), vc06Head(data), stage, pv)
			}
			if ref == vc06RefConsistent && !vc06EqU64(imp.Slice(), NewBitmap(refVals...).Slice()) {
				t.Fatalf("ImportRoaringBits of the consistent encoding %x gives %d values, the reference reading %d", vc06Head(data), imp.Count(), len(refVals))
			}
		} else if imp.Count() != 0 {
			t.Fatalf("ImportRoaringBits rejected %x (%v) but left %d bits set", vc06Head(data), ierr, imp.Count())
		}

		// stored-data path
		um := NewBitmap()
		var uerr error
		if pv := vc06Try(func() { uerr = um.UnmarshalBinary(vc06Exact(data)) }); pv != nil {
			t.Fatalf("UnmarshalBinary panics on %d bytes %x: %v", len(data), vc06Head(data), pv)
		}
		if uerr == nil && ierr == nil && ref == vc06RefConsistent {
			if ops, _ := um.Ops(); ops == 0 && !vc06EqU64(um.Slice(), imp.Slice()) {
				t.Fatalf("the two decoders disagree on %x: UnmarshalBinary %d values, ImportRoaringBits %d", vc06Head(data), um.Count(), imp.Count())
			}
		}
		if !bytes.Equal(orig, data) {
			t.Fatalf("a decoder modified its input %x", vc06Head(orig))
		}
	})
}
