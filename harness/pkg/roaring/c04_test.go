package roaring

// C04 — Bitmap encodings round-trip and imports equal decode-then-merge.
//
// Oracles: the sorted-slice model of the generated set; for the official
// format the independent encoder vr2OffEncode (gr2_official_test.go), which
// TestVerifC04_Calibration first checks against the repository's fixtures.

import (
	"bytes"
	"encoding/hex"
	"fmt"
	"os"
	"path/filepath"
	"testing"

	"github.com/pilosa/pilosa/internal/vkit"
	"pgregory.net/rapid"
)

func vc04RepoFile(rel string) string {
	root := os.Getenv("VERIF_REPO")
	if root == "" {
		root = "/repo"
	}
	return filepath.Join(root, rel)
}

// TestVerifC04_Calibration: the independent official-format codec reproduces the
// repository's official-format fixtures byte for byte and reads the documented sets from them.
func TestVerifC04_Calibration(t *testing.T) {
	defer vkit.Flush()
	type fx struct {
		name string
		data []byte
		want []uint64 // nil: only count is known
		n    int
	}
	unhex := func(s string) []byte {
		b, err := hex.DecodeString(s)
		if err != nil {
			t.Fatal(err)
		}
		return b
	}
	file, err := os.ReadFile(vc04RepoFile("roaring/testdata/bitmapcontainer.roaringbitmap"))
	if err != nil {
		t.Fatalf("fixture: %v", err)
	}
	fxs := []fx{
		// roaring/roaring_internal_test.go TestUnmarshalRoaringWithNoErrors
		{"arrays", unhex("3A300000020000000000020001000000180000001E0000000100020003000100"), []uint64{1, 2, 3, 65537}, 4},
		// http/client_test.go TestClient_ImportRoaring
		{"run+array", unhex("3B3001000100000900010000000100010009000100"), []uint64{1, 2, 3, 4, 5, 6, 7, 8, 9, 10, 65537}, 11},
		{"oneArray", unhex("3A30000001000000010001001000000003000400"), []uint64{65539, 65540}, 2},
		{"twoArrays", unhex("3A300000020000000000010001000100180000001C0000000400060001000300"), []uint64{4, 6, 65537, 65539}, 4},
		{"bitsetFile", file, nil, 10000},
	}
	for _, f := range fxs {
		conts, err := vr2OffDecode(f.data)
		if err != nil {
			t.Fatalf("%s: independent decoder: %v", f.name, err)
		}
		m := vr2OffModel(conts)
		if len(m) != f.n {
			t.Fatalf("%s: independent decoder read %d values, documented %d", f.name, len(m), f.n)
		}
		if f.want != nil && !vEq(m, f.want) {
			t.Fatalf("%s: independent decoder read %v, documented %v", f.name, m, f.want)
		}
		enc := vr2OffEncode(conts)
		if !bytes.Equal(enc, f.data) {
			t.Fatalf("%s: independent encoder does not reproduce the fixture (first difference at byte %d, len %d vs %d)", f.name, vr2FirstDiff(enc, f.data), len(enc), len(f.data))
		}
		// and the code under test reads the same set from the fixture
		b := NewBitmap()
		if err := b.UnmarshalBinary(vr2CopyBytes(f.data)); err != nil {
			t.Fatalf("%s: UnmarshalBinary: %v", f.name, err)
		}
		if got := b.Slice(); !vEq(got, m) {
			t.Fatalf("%s: UnmarshalBinary disagrees with the independent decoder: %s", f.name, vDiff(got, m))
		}
		vkit.NewCase().Key("calibration", f.name).Class("calibration").Done()
	}
}

// vc04DecodeAll decodes data through the storage path (UnmarshalBinary) into a slice
// and a B-tree bitmap and through the import path (roaring iterator) into empty
// bitmaps, then decodes it a second time; every result must be the set m; data
// must stay untouched.
func vc04DecodeAll(t *rapid.T, what string, data []byte, m []uint64, wantFlags byte, dirty bool) {
	orig := vr2CopyBytes(data)
	unchanged := func(step string) {
		if i := vr2FirstDiff(data, orig); i != -1 {
			t.Fatalf("%s: %s modified the input bytes (first difference at byte %d: %#x -> %#x)", what, step, i, orig[i], data[i])
		}
	}
	light := func(b *Bitmap) error {
		if err := vCheckStructure(b); err != nil {
			return err
		}
		if got := vSliceByContainers(b); !vEq(got, m) {
			return fmt.Errorf("%s", vDiff(got, m))
		}
		if got := b.Count(); got != uint64(len(m)) {
			return fmt.Errorf("Count=%d want %d", got, len(m))
		}
		return nil
	}
	var decoded []*Bitmap
	for _, kind := range []string{"slice", "btree", "slice(second decode)"} {
		mk := NewBitmap
		if kind == "btree" {
			mk = NewBTreeBitmap
		}
		b := mk()
		if dirty {
			// a used bitmap: decoding replaces its contents
			b.DirectAddN(3, 65536+7, 5<<16)
			b.Flags = 0x5a
		}
		if err := b.UnmarshalBinary(data); err != nil {
			t.Fatalf("%s: UnmarshalBinary (%s): %v", what, kind, err)
		}
		unchanged("UnmarshalBinary(" + kind + ")")
		var err error
		if kind == "slice" {
			err = vr2ReadAll(b, m)
		} else {
			err = light(b)
		}
		if err != nil {
			t.Fatalf("%s: decoded (%s) differs from the encoded set: %v", what, kind, err)
		}
		if b.Flags != wantFlags {
			t.Fatalf("%s: decoded Flags=%#x want %#x (%s)", what, b.Flags, wantFlags, kind)
		}
		decoded = append(decoded, b)
		if kind == "slice(second decode)" {
			break
		}
		// import path into an empty bitmap
		ib := mk()
		changed, _, err := ib.ImportRoaringBits(data, false, false, 0)
		if err != nil {
			t.Fatalf("%s: ImportRoaringBits into empty %s bitmap: %v", what, kind, err)
		}
		unchanged("ImportRoaringBits(" + kind + ")")
		if err := light(ib); err != nil {
			t.Fatalf("%s: import into empty %s bitmap differs from the encoded set (import path vs storage path): %v", what, kind, err)
		}
		if changed != len(m) {
			t.Fatalf("%s: import into empty %s bitmap reports changed=%d want %d", what, kind, changed, len(m))
		}
	}
	// the decoded (mapped) bitmaps are still right after the other decodes of the same bytes
	for i, b := range decoded {
		if got := vSliceByContainers(b); !vEq(got, m) {
			t.Fatalf("%s: decoded bitmap #%d changed after decoding/importing the same bytes elsewhere: %s", what, i, vDiff(got, m))
		}
	}
}

// TestVerifC04_Roundtrip: Unmarshal(WriteTo(b)) == b, Flags kept, both encoders of the Pilosa format.
func TestVerifC04_Roundtrip(t *testing.T) {
	defer vkit.Flush()
	rapid.Check(t, func(t *rapid.T) {
		keys := vGenKeys(t)
		var sp vBitmapSpec
		if rapid.Bool().Draw(t, "allKeys") {
			sp = vr2GenSpecAllKeys(t, "a", keys, true)
		} else {
			sp = vGenBitmapSpec(t, "a", keys, true)
		}
		flags := rapid.SampledFrom([]byte{0, 1, 2, 0x80, 0xff}).Draw(t, "flags")
		unopt := rapid.Bool().Draw(t, "unoptimized")
		dirty := rapid.Bool().Draw(t, "dirtyTarget")
		m := sp.model()
		b := sp.build(t)
		b.Flags = flags
		c := vkit.NewCase().Key("roundtrip", sp.hashKey(), flags, unopt, dirty)
		defer c.Done()
		c.Class("enc:" + sp.Enc)
		for _, cs := range sp.Conts {
			c.Class("shape:" + cs.Shape)
		}
		format := "pilosa"
		if unopt {
			format = "pilosaUnopt"
		}
		c.Class("format:" + format)
		var buf bytes.Buffer
		var n int64
		var err error
		if unopt {
			n, err = b.writeToUnoptimized(&buf)
		} else {
			n, err = b.WriteTo(&buf)
		}
		if err != nil {
			t.Fatalf("encode %s: %v", sp.describe(), err)
		}
		if int(n) != buf.Len() {
			t.Fatalf("encoder reported %d bytes, wrote %d for %s", n, buf.Len(), sp.describe())
		}
		if err := vr2ReadAll(b, m); err != nil {
			t.Fatalf("encoding changed the bitmap %s: %v", sp.describe(), err)
		}
		vc04DecodeAll(t, format+" encoding of "+sp.describe(), buf.Bytes(), m, flags, dirty)
		// encoding the unchanged bitmap again describes the same set (the bytes may differ:
		// Optimize is allowed to pick other container types on a later pass)
		var buf2 bytes.Buffer
		if unopt {
			_, err = b.writeToUnoptimized(&buf2)
		} else {
			_, err = b.WriteTo(&buf2)
		}
		if err != nil {
			t.Fatalf("second encoding: %v", err)
		}
		d2 := NewBitmap()
		if err := d2.UnmarshalBinary(buf2.Bytes()); err != nil {
			t.Fatalf("second encoding of %s does not decode: %v", sp.describe(), err)
		}
		if got := d2.Slice(); !vEq(got, m) || d2.Flags != flags {
			t.Fatalf("second encoding of %s decodes differently: %s", sp.describe(), vDiff(got, m))
		}
		c.NT(vr2PayloadNonTrivial(sp, format))
		c.Sample(map[string]interface{}{"bitmap": sp.describe(), "flags": flags, "format": format, "bytes": buf.Len()})
	})
}

// TestVerifC04_Official: Unmarshal(official(S)) == S for both cookies; input bytes unmodified; decoding twice agrees;
// the import path reads the same set.
func TestVerifC04_Official(t *testing.T) {
	defer vkit.Flush()
	rapid.Check(t, func(t *rapid.T) {
		keys := vr2GenOffKeys(t, "k")
		sp := vr2GenSpecAllKeys(t, "a", keys, true)
		conts := vr2OffContsOf(sp)
		if len(conts) == 0 {
			// the repository documents (TestUnmarshalRoaringWithErrors) that a stream without containers is rejected
			sp.Conts[0].Vals = []uint16{rapid.Uint16().Draw(t, "fill")}
			sp.Conts[0].Typ = containerArray
			sp.Conts[0].Shape = "single"
			conts = vr2OffContsOf(sp)
		}
		m := vr2OffModel(conts)
		data := vr2OffEncode(conts)
		anyRun := false
		for _, oc := range conts {
			anyRun = anyRun || oc.Run
		}
		c := vkit.NewCase().Key("official", sp.hashKey())
		defer c.Done()
		c.Class("cookie:run=%v", anyRun)
		c.ClassIf(anyRun && len(conts) >= 4, "runCookieWithOffsetHeader")
		c.ClassIf(anyRun && len(conts) < 4, "runCookieNoOffsetHeader")
		for _, oc := range conts {
			switch {
			case oc.Run:
				c.Class("cont:run")
				c.ClassIf(vr2NumRuns(oc.Vals) > 2, "cont:run>2runs")
				c.ClassIf(vr2NumRuns(oc.Vals) >= 16384, "cont:run>=16384runs")
			case len(oc.Vals) <= 4096:
				c.Class("cont:array")
				c.ClassIf(len(oc.Vals) == 4096, "cont:array4096")
			default:
				c.Class("cont:bitset")
			}
		}
		// self-check of the oracle on every case: the independent decoder reads back the same set
		back, err := vr2OffDecode(data)
		if err != nil || !vEq(vr2OffModel(back), m) {
			t.Fatalf("harness: independent codec does not round-trip (%v)", err)
		}
		dirty := rapid.Bool().Draw(t, "dirtyTarget")
		vc04DecodeAll(t, "official encoding of "+sp.describe(), data, m, 0, dirty)
		c.NT(vr2PayloadNonTrivial(sp, "official"))
		c.Sample(map[string]interface{}{"set": sp.describe(), "runCookie": anyRun, "containers": len(conts), "bytes": len(data)})
	})
}

// TestVerifC04_OfficialMax: streams with 2^16-1 / 2^16 containers (the format's limit), with and without run containers.
func TestVerifC04_OfficialMax(t *testing.T) {
	defer vkit.Flush()
	rapid.Check(t, func(t *rapid.T) {
		n := rapid.SampledFrom([]int{65536, 65536, 65535, 40000}).Draw(t, "ncontainers")
		runEvery := rapid.SampledFrom([]int{0, 1, 2, 7, 1000}).Draw(t, "runEvery") // 0: no run containers
		full := rapid.Bool().Draw(t, "fullRuns")
		r := &vsm{rapid.Uint64().Draw(t, "seed")}
		conts := make([]vr2OffCont, n)
		for i := range conts {
			conts[i].Key = uint16(i)
			conts[i].Run = runEvery > 0 && i%runEvery == 0
			switch {
			case conts[i].Run && full && i%3 == 0:
				// full container as one run (what a full 32-bit bitmap serialises to)
				vals := make([]uint16, 65536)
				for j := range vals {
					vals[j] = uint16(j)
				}
				conts[i].Vals = vals
				if i > 30 { // keep the model small: only the first few are really full
					conts[i].Vals = []uint16{uint16(r.next()), 65535}
					conts[i].Vals = vSortUniq16(conts[i].Vals)
				}
			default:
				k := 1 + r.intn(3)
				var vals []uint16
				for j := 0; j < k; j++ {
					vals = append(vals, uint16(r.next()))
				}
				conts[i].Vals = vSortUniq16(vals)
			}
		}
		m := vr2OffModel(conts)
		data := vr2OffEncode(conts)
		c := vkit.NewCase().Key("officialMax", n, runEvery, full, r.s)
		defer c.Done()
		c.Class("containers:%d", n).Class("runCookie:%v", runEvery > 0)
		c.NT(true)
		c.Sample(map[string]interface{}{"containers": n, "runEvery": runEvery, "bytes": len(data), "values": len(m)})
		orig := vr2CopyBytes(data)
		for _, kind := range []string{"slice", "btree"} {
			b := NewBitmap()
			if kind == "btree" {
				b = NewBTreeBitmap()
			}
			if err := b.UnmarshalBinary(data); err != nil {
				t.Fatalf("UnmarshalBinary of an official stream with %d containers (run container every %d): %v", n, runEvery, err)
			}
			if got := b.Count(); got != uint64(len(m)) {
				t.Fatalf("official stream with %d containers (run container every %d) decoded to %d values, want %d (%s)", n, runEvery, got, len(m), kind)
			}
			if got := b.Slice(); !vEq(got, m) {
				t.Fatalf("official stream with %d containers (run every %d): %s", n, runEvery, vDiff(got, m))
			}
			if i := vr2FirstDiff(data, orig); i != -1 {
				t.Fatalf("UnmarshalBinary modified the input bytes at %d", i)
			}
		}
		ib := NewBitmap()
		changed, _, err := ib.ImportRoaringBits(data, false, false, 0)
		if err != nil {
			t.Fatalf("ImportRoaringBits of an official stream with %d containers (run every %d): %v", n, runEvery, err)
		}
		if changed != len(m) || ib.Count() != uint64(len(m)) {
			t.Fatalf("import of an official stream with %d containers (run every %d): changed=%d Count=%d want %d", n, runEvery, changed, ib.Count(), len(m))
		}
		if got := ib.Slice(); !vEq(got, m) {
			t.Fatalf("import of official stream with %d containers: %s", n, vDiff(got, m))
		}
		if i := vr2FirstDiff(data, orig); i != -1 {
			t.Fatalf("ImportRoaringBits modified the input bytes at %d", i)
		}
	})
}

// TestVerifC04_Import: ImportRoaringBits(P, set) == T ∪ S with changed = |S∖T|; (P, clear) == T ∖ S with changed = |T∩S|;
// rowSet deltas per row; payload unmodified.
func TestVerifC04_Import(t *testing.T) {
	defer vkit.Flush()
	rapid.Check(t, func(t *rapid.T) {
		format := rapid.SampledFrom([]string{"pilosa", "pilosaUnopt", "official", "official"}).Draw(t, "format")
		var keys []uint64
		if format == "official" {
			keys = vr2GenOffKeys(t, "k")
			if len(keys) > 5 {
				keys = keys[:5]
			}
		} else {
			keys = vGenKeys(t)
		}
		target := vGenBitmapSpec(t, "t", keys, true)
		var payload vBitmapSpec
		if rapid.Bool().Draw(t, "allKeys") {
			payload = vr2GenSpecAllKeys(t, "p", keys, true)
		} else {
			payload = vGenBitmapSpec(t, "p", keys, true)
		}
		if format == "official" && vr2NonEmptyConts(payload) == 0 {
			if len(payload.Conts) == 0 {
				payload.Conts = []vContSpec{{Key: keys[0]}}
			}
			payload.Conts[0].Vals = []uint16{rapid.Uint16().Draw(t, "fill")}
			payload.Conts[0].Typ = containerArray
			payload.Conts[0].Shape = "single"
		}
		clear := rapid.Bool().Draw(t, "clear")
		rowSize := rapid.SampledFrom([]uint64{0, 1, 16, 16}).Draw(t, "rowSize")
		mt, ms := target.model(), payload.model()
		tb := target.build(t)
		data := vr2Payload(t, payload, format)
		orig := vr2CopyBytes(data)
		c := vkit.NewCase().Key("import", target.hashKey(), payload.hashKey(), format, clear, rowSize)
		defer c.Done()
		c.Class("format:"+format).Class("clear:%v", clear).Class("targetEnc:" + target.Enc)
		tt := vTypesAt(tb)
		for _, pc := range payload.Conts {
			if len(pc.Vals) == 0 {
				continue
			}
			if x, ok := tt[pc.Key]; ok {
				c.Class("target:%s<-payload:%s", containerTypeNames[x], containerTypeNames[pc.Typ])
			} else {
				c.Class("target:none<-payload:%s", containerTypeNames[pc.Typ])
			}
		}
		desc := fmt.Sprintf("target %s, payload(%s) %s, clear=%v rowSize=%d", target.describe(), format, payload.describe(), clear, rowSize)
		var want, changedVals []uint64
		sign := 1
		if clear {
			want = vDifference(mt, ms)
			changedVals = vIntersect(mt, ms)
			sign = -1
		} else {
			want = vUnion(mt, ms)
			changedVals = vDifference(ms, mt)
		}
		changed, rowSet, err := tb.ImportRoaringBits(data, clear, false, rowSize)
		if err != nil {
			t.Fatalf("ImportRoaringBits: %v  (%s)", err, desc)
		}
		if i := vr2FirstDiff(data, orig); i != -1 {
			t.Fatalf("ImportRoaringBits modified the payload bytes at %d (%s)", i, desc)
		}
		if err := vr2ReadAll(tb, want); err != nil {
			t.Fatalf("after import: %v  (%s)", err, desc)
		}
		if changed != len(changedVals) {
			t.Fatalf("import reports changed=%d, want %d (%s)", changed, len(changedVals), desc)
		}
		if d := vr2RowSetDiff(rowSet, vr2RowDeltas(changedVals, rowSize, sign)); d != "" {
			t.Fatalf("import rowSet: %s (%s)", d, desc)
		}
		// importing the same payload again changes nothing
		changed2, rowSet2, err := tb.ImportRoaringBits(data, clear, false, rowSize)
		if err != nil {
			t.Fatalf("second ImportRoaringBits: %v (%s)", err, desc)
		}
		if changed2 != 0 {
			t.Fatalf("second import of the same payload reports changed=%d (%s)", changed2, desc)
		}
		if d := vr2RowSetDiff(rowSet2, map[uint64]int{}); d != "" {
			t.Fatalf("second import rowSet: %s (%s)", d, desc)
		}
		if err := vr2ReadAll(tb, want); err != nil {
			t.Fatalf("after second import: %v  (%s)", err, desc)
		}
		if i := vr2FirstDiff(data, orig); i != -1 {
			t.Fatalf("second ImportRoaringBits modified the payload bytes at %d (%s)", i, desc)
		}
		// the payload decodes to S on its own (decode-then-merge reference)
		pb := NewBitmap()
		if err := pb.UnmarshalBinary(data); err != nil {
			t.Fatalf("payload does not decode: %v (%s)", err, desc)
		}
		if got := pb.Slice(); !vEq(got, ms) {
			t.Fatalf("payload decodes to a different set: %s (%s)", vDiff(got, ms), desc)
		}
		c.NT(vr2PayloadNonTrivial(payload, format) && len(changedVals) > 0)
		c.ClassIf(len(changedVals) == 0, "changesNothing")
		c.ClassIf(len(changedVals) > 0 && len(changedVals) < len(ms), "partialOverlap")
		c.Sample(desc)
	})
}
