package roaring

// C01 — Roaring reads and set operations match set semantics.
// Oracle: sorted-slice model of the generated sets.

import (
	"fmt"
	"sort"
	"testing"

	"github.com/pilosa/pilosa/internal/vkit"
	"pgregory.net/rapid"
)

func vPairLabel(a, b byte) string {
	if a > b {
		a, b = b, a
	}
	return "pair:" + containerTypeNames[a] + "x" + containerTypeNames[b]
}

func vSpecNonTrivial(sps ...vBitmapSpec) bool {
	for _, sp := range sps {
		for _, c := range sp.Conts {
			switch c.Shape {
			case "arrayThreshold", "manyRuns", "full", "fullMinus1", "empty", "edge2":
				return true
			}
		}
	}
	// two containers with different encodings meeting at one key
	for i := 0; i < len(sps); i++ {
		for j := i + 1; j < len(sps); j++ {
			for _, a := range sps[i].Conts {
				for _, b := range sps[j].Conts {
					if a.Key == b.Key && a.Typ != b.Typ {
						return true
					}
				}
			}
		}
	}
	return false
}

// TestVerifC01_Reads: every read of one bitmap equals the read on the model.
func TestVerifC01_Reads(t *testing.T) {
	defer vkit.Flush()
	rapid.Check(t, func(t *rapid.T) {
		keys := vGenKeys(t)
		sp := vGenBitmapSpec(t, "a", keys, true)
		m := sp.model()
		b := sp.build(t)
		c := vkit.NewCase().Key("reads", sp.hashKey())
		defer c.Done()
		c.Class("enc:" + sp.Enc)
		for _, cs := range sp.Conts {
			c.Class("shape:" + cs.Shape)
			c.Class("type:" + containerTypeNames[cs.Typ])
		}
		if err := vCheckStructure(b); err != nil {
			t.Fatalf("structure of built %s: %v", sp.describe(), err)
		}
		if got := b.Count(); got != uint64(len(m)) {
			t.Fatalf("Count=%d want %d for %s", got, len(m), sp.describe())
		}
		if got := b.Any(); got != (len(m) > 0) {
			t.Fatalf("Any=%v want %v for %s", got, len(m) > 0, sp.describe())
		}
		if got := b.Slice(); !vEq(got, m) {
			t.Fatalf("Slice mismatch for %s: %s", sp.describe(), vDiff(got, m))
		}
		if got := vSliceByContainers(b); !vEq(got, m) {
			t.Fatalf("container walk mismatch for %s: %s", sp.describe(), vDiff(got, m))
		}
		var fe []uint64
		b.ForEach(func(v uint64) { fe = append(fe, v) })
		if !vEq(fe, m) {
			t.Fatalf("ForEach mismatch for %s: %s", sp.describe(), vDiff(fe, m))
		}
		if v, ok := b.Min(); len(m) > 0 && (!ok || v != m[0]) {
			t.Fatalf("Min=(%d,%v) want (%d,true) for %s", v, ok, m[0], sp.describe())
		} else if len(m) == 0 && ok {
			t.Fatalf("Min reports a value (%d) for the empty set %s", v, sp.describe())
		}
		wantMax := uint64(0)
		if len(m) > 0 {
			wantMax = m[len(m)-1]
		}
		if got := b.Max(); got != wantMax {
			t.Fatalf("Max=%d want %d for %s", got, wantMax, sp.describe())
		}
		// point and range reads
		edge := false
		nprobe := rapid.IntRange(1, 6).Draw(t, "nprobe")
		var samples []string
		for i := 0; i < nprobe; i++ {
			x := vGenPoint(t, fmt.Sprintf("p%d", i), keys, m)
			if got := b.Contains(x); got != vHas(m, x) {
				t.Fatalf("Contains(%d)=%v want %v for %s", x, got, !got, sp.describe())
			}
			y := vGenPoint(t, fmt.Sprintf("q%d", i), keys, m)
			s, e := x, y
			if s > e {
				s, e = e, s
			}
			if vHas(m, s) || vHas(m, e) || (e > 0 && vHas(m, e-1)) || (s > 0 && vHas(m, s-1)) {
				edge = true
			}
			want := vRange(m, s, e)
			if got := b.CountRange(s, e); got != uint64(len(want)) {
				t.Fatalf("CountRange(%d,%d)=%d want %d for %s", s, e, got, len(want), sp.describe())
			}
			if got := b.SliceRange(s, e); !vEq(got, want) {
				t.Fatalf("SliceRange(%d,%d) mismatch for %s: %s", s, e, sp.describe(), vDiff(got, want))
			}
			var fr []uint64
			b.ForEachRange(s, e, func(v uint64) { fr = append(fr, v) })
			if !vEq(fr, want) {
				t.Fatalf("ForEachRange(%d,%d) mismatch for %s: %s", s, e, sp.describe(), vDiff(fr, want))
			}
			// Seek then a run of Next
			itr := b.Iterator()
			itr.Seek(x)
			idx := sort.Search(len(m), func(i int) bool { return m[i] >= x })
			steps := rapid.IntRange(1, 5).Draw(t, fmt.Sprintf("steps%d", i))
			for k := 0; k < steps; k++ {
				v, eof := itr.Next()
				if idx+k >= len(m) {
					if !eof {
						t.Fatalf("Seek(%d)+Next#%d = %d, want eof for %s", x, k, v, sp.describe())
					}
					break
				}
				if eof || v != m[idx+k] {
					t.Fatalf("Seek(%d)+Next#%d = (%d,eof=%v) want %d for %s", x, k, v, eof, m[idx+k], sp.describe())
				}
			}
			samples = append(samples, fmt.Sprintf("range[%d,%d) seek %d", s, e, x))
		}
		// OffsetRange with container-aligned arguments (the callers' contract)
		{
			ks := append([]uint64{0}, keys...)
			ks = append(ks, keys[len(keys)-1]+1)
			i := rapid.IntRange(0, len(ks)-1).Draw(t, "or.s")
			j := rapid.IntRange(i, len(ks)-1).Draw(t, "or.e")
			sk, ek := ks[i], ks[j]
			if ek > maxContainerKey {
				ek = maxContainerKey
			}
			if sk > ek {
				sk = ek
			}
			offk := rapid.SampledFrom([]uint64{0, 1, 16, 1 << 20}).Draw(t, "or.off")
			start, end, off := sk<<16, ek<<16, offk<<16
			var want []uint64
			for _, v := range vRange(m, start, end) {
				want = append(want, v-start+off)
			}
			got := b.OffsetRange(off, start, end)
			if gs := got.Slice(); !vEq(gs, want) {
				t.Fatalf("OffsetRange(%d,%d,%d) mismatch for %s: %s", off, start, end, sp.describe(), vDiff(gs, want))
			}
			if got.Count() != uint64(len(want)) {
				t.Fatalf("OffsetRange(%d,%d,%d).Count=%d want %d", off, start, end, got.Count(), len(want))
			}
		}
		// reads must not have changed the bitmap
		if got := vSliceByContainers(b); !vEq(got, m) {
			t.Fatalf("bitmap changed by reads, %s: %s", sp.describe(), vDiff(got, m))
		}
		c.NT(vSpecNonTrivial(sp) || edge).ClassIf(edge, "rangeEndpointOnElementEdge")
		c.Sample(map[string]interface{}{"bitmap": sp.describe(), "probes": samples})
	})
}

// TestVerifC01_Ops: set operations equal the mathematical result; results are structurally valid; operands unchanged.
func TestVerifC01_Ops(t *testing.T) {
	defer vkit.Flush()
	rapid.Check(t, func(t *rapid.T) {
		keys := vGenKeys(t)
		spa := vGenBitmapSpec(t, "a", keys, true)
		spb := vGenBitmapSpec(t, "b", keys, true)
		ma, mb := spa.model(), spb.model()
		a, b := spa.build(t), spb.build(t)
		c := vkit.NewCase().Key("ops", spa.hashKey(), spb.hashKey())
		defer c.Done()
		ta, tb := vTypesAt(a), vTypesAt(b)
		for k, x := range ta {
			if y, ok := tb[k]; ok {
				c.Class(vPairLabel(x, y))
			}
		}
		c.Class("encA:" + spa.Enc)
		desc := spa.describe() + " , " + spb.describe()
		check := func(op string, got *Bitmap, want []uint64) {
			if err := vCheckStructure(got); err != nil {
				t.Fatalf("%s: result structure: %v  operands %s", op, err, desc)
			}
			if gs := got.Slice(); !vEq(gs, want) {
				t.Fatalf("%s mismatch: %s  operands %s", op, vDiff(gs, want), desc)
			}
			if gs := vSliceByContainers(got); !vEq(gs, want) {
				t.Fatalf("%s mismatch (container walk): %s  operands %s", op, vDiff(gs, want), desc)
			}
			if got.Count() != uint64(len(want)) {
				t.Fatalf("%s: Count=%d want %d operands %s", op, got.Count(), len(want), desc)
			}
		}
		unchanged := func(op string) {
			if gs := vSliceByContainers(a); !vEq(gs, ma) {
				t.Fatalf("%s changed its receiver: %s operands %s", op, vDiff(gs, ma), desc)
			}
			if gs := vSliceByContainers(b); !vEq(gs, mb) {
				t.Fatalf("%s changed its argument: %s operands %s", op, vDiff(gs, mb), desc)
			}
			if err := vCheckStructure(a); err != nil {
				t.Fatalf("%s damaged receiver structure: %v operands %s", op, err, desc)
			}
			if err := vCheckStructure(b); err != nil {
				t.Fatalf("%s damaged argument structure: %v operands %s", op, err, desc)
			}
		}
		check("Intersect", a.Intersect(b), vIntersect(ma, mb))
		unchanged("Intersect")
		if got := a.IntersectionCount(b); got != uint64(len(vIntersect(ma, mb))) {
			t.Fatalf("IntersectionCount=%d want %d operands %s", got, len(vIntersect(ma, mb)), desc)
		}
		unchanged("IntersectionCount")
		check("Union(1)", a.Union(b), vUnion(ma, mb))
		unchanged("Union(1)")
		check("Difference", a.Difference(b), vDifference(ma, mb))
		unchanged("Difference")
		check("Xor", a.Xor(b), vXor(ma, mb))
		unchanged("Xor")
		// Shift by one
		{
			var want []uint64
			for _, v := range ma {
				if v != ^uint64(0) {
					want = append(want, v+1)
				}
			}
			got, err := a.Shift(1)
			if err != nil {
				t.Fatalf("Shift(1): %v", err)
			}
			check("Shift", got, want)
			unchanged("Shift")
		}
		c.NT(vSpecNonTrivial(spa, spb))
		c.Sample(map[string]string{"a": spa.describe(), "b": spb.describe()})
	})
}

// TestVerifC01_NaryUnion: Union with n>=2 operands and UnionInPlace (n-ary), targets that already hold the key.
func TestVerifC01_NaryUnion(t *testing.T) {
	defer vkit.Flush()
	rapid.Check(t, func(t *rapid.T) {
		keys := vGenKeys(t)
		nOthers := rapid.SampledFrom([]int{1, 2, 2, 3, 4, 5, 21, 22}).Draw(t, "nothers")
		target := vGenBitmapSpec(t, "t", keys, true)
		var others []vBitmapSpec
		for i := 0; i < nOthers; i++ {
			// keep the many-operand cases cheap: only the first few operands may be big
			others = append(others, vGenBitmapSpec(t, fmt.Sprintf("o%d", i), keys, i < 3))
		}
		mt := target.model()
		tb := target.build(t)
		want := append([]uint64(nil), mt...)
		var obs []*Bitmap
		var oms [][]uint64
		key := []interface{}{"nary", target.hashKey()}
		desc := "target " + target.describe()
		for _, o := range others {
			obs = append(obs, o.build(t))
			oms = append(oms, o.model())
			want = vUnion(want, o.model())
			key = append(key, o.hashKey())
			desc += " | " + o.describe()
		}
		c := vkit.NewCase().Key(key...)
		defer c.Done()
		c.Class("nOthers:%d", nOthers)
		all := append([]vBitmapSpec{target}, others...)
		c.NT(vSpecNonTrivial(all...) || nOthers > 20)
		c.Sample(desc)

		verifyOperands := func(op string) {
			for i, ob := range obs {
				if gs := vSliceByContainers(ob); !vEq(gs, oms[i]) {
					t.Fatalf("%s changed operand %d: %s  %s", op, i, vDiff(gs, oms[i]), desc)
				}
				if err := vCheckStructure(ob); err != nil {
					t.Fatalf("%s damaged operand %d structure: %v  %s", op, i, err, desc)
				}
			}
		}
		// Union (new value)
		u := tb.Union(obs...)
		if err := vCheckStructure(u); err != nil {
			t.Fatalf("Union(n=%d) result structure: %v  %s", nOthers, err, desc)
		}
		if gs := u.Slice(); !vEq(gs, want) {
			t.Fatalf("Union(n=%d) mismatch: %s  %s", nOthers, vDiff(gs, want), desc)
		}
		if u.Count() != uint64(len(want)) {
			t.Fatalf("Union(n=%d).Count=%d want %d  %s", nOthers, u.Count(), len(want), desc)
		}
		if gs := vSliceByContainers(tb); !vEq(gs, mt) {
			t.Fatalf("Union(n=%d) changed its receiver: %s  %s", nOthers, vDiff(gs, mt), desc)
		}
		verifyOperands("Union")
		// UnionInPlace (mutates the receiver only)
		tb.UnionInPlace(obs...)
		if err := vCheckStructure(tb); err != nil {
			t.Fatalf("UnionInPlace(n=%d) result structure: %v  %s", nOthers, err, desc)
		}
		if gs := tb.Slice(); !vEq(gs, want) {
			t.Fatalf("UnionInPlace(n=%d) mismatch: %s  %s", nOthers, vDiff(gs, want), desc)
		}
		if tb.Count() != uint64(len(want)) {
			t.Fatalf("UnionInPlace(n=%d).Count=%d want %d  %s", nOthers, tb.Count(), len(want), desc)
		}
		verifyOperands("UnionInPlace")
		// the earlier Union result is a separate value
		if gs := u.Slice(); !vEq(gs, want) {
			t.Fatalf("Union result changed after UnionInPlace on the receiver: %s", vDiff(gs, want))
		}
	})
}

// TestVerifC01_Flip: Flip(start,end) negates the inclusive range.
func TestVerifC01_Flip(t *testing.T) {
	defer vkit.Flush()
	rapid.Check(t, func(t *rapid.T) {
		keys := vGenKeys(t)
		sp := vGenBitmapSpec(t, "a", keys, false)
		m := sp.model()
		b := sp.build(t)
		start := vGenPoint(t, "s", keys, m)
		ln := rapid.OneOf(rapid.Uint64Range(0, 300), rapid.Uint64Range(0, 70000), rapid.Uint64Range(65530, 65545)).Draw(t, "len")
		if start > ^uint64(0)-ln-2 {
			start = ^uint64(0) - ln - 2 // Flip's loop variable must be able to pass `end` (cost bound, not position)
		}
		end := start + ln
		c := vkit.NewCase().Key("flip", sp.hashKey(), start, end)
		defer c.Done()
		var want []uint64
		for _, v := range m {
			if v < start || v > end {
				want = append(want, v)
			}
		}
		for v := start; v <= end; v++ {
			if !vHas(m, v) {
				want = append(want, v)
			}
		}
		want = vSortUniq64(want)
		got := b.Flip(start, end)
		if err := vCheckStructure(got); err != nil {
			t.Fatalf("Flip result structure: %v", err)
		}
		if gs := got.Slice(); !vEq(gs, want) {
			t.Fatalf("Flip(%d,%d) mismatch on %s: %s", start, end, sp.describe(), vDiff(gs, want))
		}
		if gs := vSliceByContainers(b); !vEq(gs, m) {
			t.Fatalf("Flip changed its receiver: %s", vDiff(gs, m))
		}
		inside := len(vRange(m, start, end+1))
		c.NT(inside > 0 && inside < len(m) || highbits(start) != highbits(end))
		c.ClassIf(highbits(start) != highbits(end), "flipCrossesContainer")
		c.Sample(map[string]interface{}{"bitmap": sp.describe(), "start": start, "end": end})
	})
}
