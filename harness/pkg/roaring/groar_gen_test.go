package roaring

// Shared generators for the roaring-level checks (C01–C05).
// A generated bitmap is a list of (container key, container type, low-bit
// values) plus an "encoding transformer". The reference model is a sorted
// []uint64. Bulk container contents are expanded from a rapid-drawn seed by a
// fixed splitmix64 sequence so that a case stays a pure function of rapid's
// draws (replayable) without drawing thousands of values from rapid.

import (
	"bytes"
	"fmt"
	"sort"

	"pgregory.net/rapid"
)

type vContSpec struct {
	Key   uint64
	Typ   byte // containerArray / containerBitmap / containerRun
	Shape string
	Vals  []uint16 // sorted, unique
}

type vBitmapSpec struct {
	Conts []vContSpec
	Enc   string
}

type vsm struct{ s uint64 }

func (r *vsm) next() uint64 {
	r.s += 0x9e3779b97f4a7c15
	z := r.s
	z = (z ^ (z >> 30)) * 0xbf58476d1ce4e5b9
	z = (z ^ (z >> 27)) * 0x94d049bb133111eb
	return z ^ (z >> 31)
}
func (r *vsm) intn(n int) int { return int(r.next() % uint64(n)) }

var vKeyPool = []uint64{0, 1, 2, 15, 16, 17, 1 << 16, 1<<16 + 1, 0x123456789a, maxContainerKey - 1, maxContainerKey}

func vSortUniq16(a []uint16) []uint16 {
	sort.Slice(a, func(i, j int) bool { return a[i] < a[j] })
	out := a[:0]
	for i, v := range a {
		if i == 0 || v != a[i-1] {
			out = append(out, v)
		}
	}
	return out
}

func vSortUniq64(a []uint64) []uint64 {
	sort.Slice(a, func(i, j int) bool { return a[i] < a[j] })
	out := a[:0]
	for i, v := range a {
		if i == 0 || v != a[i-1] {
			out = append(out, v)
		}
	}
	return out
}

// vGenVals draws the low-bit contents of one container.
func vGenVals(t *rapid.T, label string, allowBig bool) (shape string, vals []uint16) {
	shapes := []string{"single", "few", "few", "runs", "runs", "dense", "edge2", "empty"}
	if allowBig {
		shapes = append(shapes, "arrayThreshold", "full", "fullMinus1", "manyRuns", "sparseBitmap", "runs", "few")
	}
	shape = rapid.SampledFrom(shapes).Draw(t, label+".shape")
	switch shape {
	case "empty":
		return shape, nil
	case "single":
		v := rapid.SampledFrom([]uint16{0, 1, 63, 64, 65534, 65535, 4095, 4096, 30000}).Draw(t, label+".v")
		return shape, []uint16{v}
	case "edge2":
		return shape, []uint16{0, 65535}
	case "few":
		vals = rapid.SliceOfN(rapid.OneOf(rapid.Uint16(), rapid.Uint16Range(0, 130), rapid.Uint16Range(65400, 65535)), 1, 8).Draw(t, label+".vals")
		return shape, vSortUniq16(append([]uint16(nil), vals...))
	case "runs":
		// a handful of runs, possibly touching 0 / 65535 and word boundaries
		n := rapid.IntRange(1, 6).Draw(t, label+".nruns")
		for i := 0; i < n; i++ {
			st := rapid.OneOf(rapid.Uint16(), rapid.SampledFrom([]uint16{0, 1, 62, 63, 64, 65, 127, 128, 65000, 65530})).Draw(t, label+".rs")
			ln := rapid.OneOf(rapid.IntRange(1, 4), rapid.IntRange(60, 70), rapid.IntRange(1, 3000)).Draw(t, label+".rl")
			for j := 0; j < ln && int(st)+j <= 65535; j++ {
				vals = append(vals, st+uint16(j))
			}
		}
		if rapid.Bool().Draw(t, label+".toEnd") {
			for v := 65535 - rapid.IntRange(0, 5).Draw(t, label+".endlen"); v <= 65535; v++ {
				vals = append(vals, uint16(v))
			}
		}
		return shape, vSortUniq16(vals)
	case "dense":
		seed := rapid.Uint64().Draw(t, label+".seed")
		r := &vsm{seed}
		lo := rapid.SampledFrom([]int{0, 100, 60000}).Draw(t, label+".lo")
		span := rapid.SampledFrom([]int{64, 200, 1000, 5535}).Draw(t, label+".span")
		den := rapid.IntRange(1, 9).Draw(t, label+".den")
		for v := lo; v < lo+span && v <= 65535; v++ {
			if r.intn(10) < den {
				vals = append(vals, uint16(v))
			}
		}
		return shape, vals
	case "arrayThreshold":
		seed := rapid.Uint64().Draw(t, label+".seed")
		r := &vsm{seed}
		n := rapid.IntRange(4090, 4100).Draw(t, label+".n")
		seen := map[uint16]bool{}
		for len(seen) < n {
			seen[uint16(r.next())] = true
		}
		for v := range seen {
			vals = append(vals, v)
		}
		return shape, vSortUniq16(vals)
	case "sparseBitmap":
		seed := rapid.Uint64().Draw(t, label+".seed")
		r := &vsm{seed}
		n := rapid.SampledFrom([]int{5000, 9000, 30000}).Draw(t, label+".n")
		seen := map[uint16]bool{}
		for len(seen) < n {
			seen[uint16(r.next())] = true
		}
		for v := range seen {
			vals = append(vals, v)
		}
		return shape, vSortUniq16(vals)
	case "full":
		vals = make([]uint16, 65536)
		for i := range vals {
			vals[i] = uint16(i)
		}
		return shape, vals
	case "fullMinus1":
		hole := rapid.SampledFrom([]int{0, 1, 63, 64, 32768, 65534, 65535}).Draw(t, label+".hole")
		for i := 0; i < 65536; i++ {
			if i != hole {
				vals = append(vals, uint16(i))
			}
		}
		return shape, vals
	case "manyRuns":
		// number of runs around the 2048 threshold, each of length 2..3 (so N/2 >= runs)
		nr := rapid.SampledFrom([]int{2046, 2047, 2048, 2049, 2050, 1500}).Draw(t, label+".nr")
		gap := rapid.IntRange(3, 4).Draw(t, label+".gap")
		v := rapid.IntRange(0, 3).Draw(t, label+".start")
		for i := 0; i < nr && v+gap < 65536; i++ {
			ln := 2 + (i % 2)
			for j := 0; j < ln; j++ {
				vals = append(vals, uint16(v+j))
			}
			v += ln + gap
		}
		return shape, vals
	}
	panic("unreachable shape " + shape)
}

// vTypeFor picks an encoding allowed for the values (arrays hold at most ArrayMaxSize values;
// run and bitmap containers can hold any set; empty containers are arrays, as GetOrCreate makes them).
func vTypeFor(t *rapid.T, label string, vals []uint16) byte {
	if len(vals) == 0 {
		return containerArray
	}
	opts := []byte{containerBitmap, containerRun}
	if len(vals) <= ArrayMaxSize {
		opts = append(opts, containerArray, containerArray)
	}
	return rapid.SampledFrom(opts).Draw(t, label+".typ")
}

func vRunsOf(vals []uint16) []interval16 {
	var runs []interval16
	for i := 0; i < len(vals); {
		j := i
		for j+1 < len(vals) && vals[j+1] == vals[j]+1 {
			j++
		}
		runs = append(runs, interval16{start: vals[i], last: vals[j]})
		i = j + 1
	}
	return runs
}

func vMakeContainer(typ byte, vals []uint16) *Container {
	switch typ {
	case containerArray:
		if len(vals) == 0 {
			return NewContainer()
		}
		return NewContainerArray(append([]uint16(nil), vals...))
	case containerBitmap:
		bm := make([]uint64, bitmapN)
		for _, v := range vals {
			bm[v/64] |= 1 << (v % 64)
		}
		return NewContainerBitmapN(bm, int32(len(vals)))
	case containerRun:
		return NewContainerRun(vRunsOf(vals))
	}
	panic("bad type")
}

var vEncodings = []string{"built", "built", "btree", "optimized", "frozen", "cloned", "decoded", "decodedBtree", "added", "addedBtree", "optimizedDecoded"}

// vGenBitmapSpec draws a bitmap over the given key pool.
func vGenBitmapSpec(t *rapid.T, label string, keys []uint64, allowBig bool) vBitmapSpec {
	var sp vBitmapSpec
	n := rapid.IntRange(0, len(keys)).Draw(t, label+".nkeys")
	idx := rapid.Permutation(keys).Draw(t, label+".keys")[:n]
	sort.Slice(idx, func(i, j int) bool { return idx[i] < idx[j] })
	for i, k := range idx {
		shape, vals := vGenVals(t, fmt.Sprintf("%s.c%d", label, i), allowBig)
		sp.Conts = append(sp.Conts, vContSpec{Key: k, Shape: shape, Vals: vals, Typ: vTypeFor(t, fmt.Sprintf("%s.c%d", label, i), vals)})
	}
	sp.Enc = rapid.SampledFrom(vEncodings).Draw(t, label+".enc")
	return sp
}

func vGenKeys(t *rapid.T) []uint64 {
	n := rapid.IntRange(1, 4).Draw(t, "nkeypool")
	ks := rapid.Permutation(vKeyPool).Draw(t, "keypool")[:n]
	// adjacent keys matter for Shift / ranges: often add key+1
	if rapid.Bool().Draw(t, "adjacent") && ks[0] < maxContainerKey {
		ks = append(ks, ks[0]+1)
	}
	out := vSortUniq64(append([]uint64(nil), ks...))
	return out
}

func (sp vBitmapSpec) model() []uint64 {
	var m []uint64
	for _, c := range sp.Conts {
		for _, v := range c.Vals {
			m = append(m, c.Key<<16|uint64(v))
		}
	}
	return m // keys ascending, vals ascending => sorted
}

// build materialises the bitmap with the requested encoding.
func (sp vBitmapSpec) build(t *rapid.T) *Bitmap {
	mk := func(btree bool) *Bitmap {
		var b *Bitmap
		if btree {
			b = NewBTreeBitmap()
		} else {
			b = NewBitmap()
		}
		for _, c := range sp.Conts {
			b.Containers.Put(c.Key, vMakeContainer(c.Typ, c.Vals))
		}
		return b
	}
	decode := func(src *Bitmap, btree bool) *Bitmap {
		var buf bytes.Buffer
		if _, err := src.WriteTo(&buf); err != nil {
			t.Fatalf("WriteTo: %v", err)
		}
		var b *Bitmap
		if btree {
			b = NewBTreeBitmap()
		} else {
			b = NewBitmap()
		}
		if err := b.UnmarshalBinary(buf.Bytes()); err != nil {
			t.Fatalf("UnmarshalBinary of own encoding: %v", err)
		}
		return b
	}
	switch sp.Enc {
	case "built":
		return mk(false)
	case "btree":
		return mk(true)
	case "optimized":
		b := mk(false)
		b.Optimize()
		return b
	case "frozen":
		return mk(false).Freeze()
	case "cloned":
		return mk(true).Clone()
	case "decoded":
		return decode(mk(false), false)
	case "decodedBtree":
		return decode(mk(false), true)
	case "optimizedDecoded":
		b := mk(false)
		b.Optimize()
		return decode(b, true)
	case "added", "addedBtree":
		var b *Bitmap
		if sp.Enc == "added" {
			b = NewBitmap()
		} else {
			b = NewBTreeBitmap()
		}
		m := sp.model()
		if _, err := b.AddN(m...); err != nil {
			t.Fatalf("AddN: %v", err)
		}
		return b
	}
	panic("bad enc " + sp.Enc)
}

func (sp vBitmapSpec) describe() string {
	s := sp.Enc + "["
	for i, c := range sp.Conts {
		if i > 0 {
			s += " "
		}
		s += fmt.Sprintf("k%d:%s/%s/n%d", c.Key, containerTypeNames[c.Typ], c.Shape, len(c.Vals))
		if len(c.Vals) > 0 && len(c.Vals) <= 6 {
			s += fmt.Sprint(c.Vals)
		}
	}
	return s + "]"
}

func (sp vBitmapSpec) hashKey() string {
	s := sp.Enc
	for _, c := range sp.Conts {
		h := uint64(1469598103934665603)
		for _, v := range c.Vals {
			h = (h ^ uint64(v)) * 1099511628211
		}
		s += fmt.Sprintf("|%d:%d:%d:%x", c.Key, c.Typ, len(c.Vals), h)
	}
	return s
}

// vTypesAt returns the actual container type at each key of a built bitmap.
func vTypesAt(b *Bitmap) map[uint64]byte {
	m := map[uint64]byte{}
	it, _ := b.Containers.Iterator(0)
	for it.Next() {
		k, c := it.Value()
		m[k] = c.typ()
	}
	return m
}

// vCheckStructure verifies the structural invariant of every container of b:
// cached cardinality equals the real one, arrays sorted/unique, runs sorted,
// non-empty, non-overlapping.
func vCheckStructure(b *Bitmap) error {
	it, _ := b.Containers.Iterator(0)
	for it.Next() {
		k, c := it.Value()
		if c == nil {
			continue
		}
		switch c.typ() {
		case containerArray:
			a := c.array()
			if int(c.N()) != len(a) {
				return fmt.Errorf("key %d: array N=%d len=%d", k, c.N(), len(a))
			}
			for i := 1; i < len(a); i++ {
				if a[i-1] >= a[i] {
					return fmt.Errorf("key %d: array not strictly ascending at %d: %d,%d", k, i, a[i-1], a[i])
				}
			}
		case containerBitmap:
			n := 0
			for _, w := range c.bitmap() {
				n += int(popcount(w))
			}
			if int(c.N()) != n {
				return fmt.Errorf("key %d: bitmap N=%d popcount=%d", k, c.N(), n)
			}
			if len(c.bitmap()) != bitmapN {
				return fmt.Errorf("key %d: bitmap len %d", k, len(c.bitmap()))
			}
		case containerRun:
			n := 0
			rs := c.runs()
			for i, r := range rs {
				if r.last < r.start {
					return fmt.Errorf("key %d: run %d inverted %v", k, i, r)
				}
				if i > 0 && int(rs[i-1].last) >= int(r.start) {
					return fmt.Errorf("key %d: runs %d,%d overlap/unsorted %v %v", k, i-1, i, rs[i-1], r)
				}
				n += int(r.last-r.start) + 1
			}
			if int(c.N()) != n {
				return fmt.Errorf("key %d: run N=%d real=%d", k, c.N(), n)
			}
		default:
			return fmt.Errorf("key %d: bad container type %d", k, c.typ())
		}
	}
	return nil
}

// vSliceOf reads a bitmap without using the Bitmap-level iterator (per-container walk),
// as an independent read path.
func vSliceByContainers(b *Bitmap) []uint64 {
	var out []uint64
	it, _ := b.Containers.Iterator(0)
	for it.Next() {
		k, c := it.Value()
		if c == nil {
			continue
		}
		switch c.typ() {
		case containerArray:
			for _, v := range c.array() {
				out = append(out, k<<16|uint64(v))
			}
		case containerBitmap:
			for i, w := range c.bitmap() {
				for w != 0 {
					tz := trailingZeroN(w)
					out = append(out, k<<16|uint64(i*64+tz))
					w &^= 1 << uint(tz)
				}
			}
		case containerRun:
			for _, r := range c.runs() {
				for v := int(r.start); v <= int(r.last); v++ {
					out = append(out, k<<16|uint64(v))
				}
			}
		}
	}
	return out
}

func vEq(a, b []uint64) bool {
	if len(a) != len(b) {
		return false
	}
	for i := range a {
		if a[i] != b[i] {
			return false
		}
	}
	return true
}

func vShow(a []uint64) string {
	if len(a) <= 12 {
		return fmt.Sprint(a)
	}
	return fmt.Sprintf("%v…(%d values)…%v", a[:6], len(a), a[len(a)-3:])
}

func vDiff(got, want []uint64) string {
	gm := map[uint64]bool{}
	for _, v := range got {
		gm[v] = true
	}
	wm := map[uint64]bool{}
	for _, v := range want {
		wm[v] = true
	}
	var extra, missing []uint64
	for _, v := range got {
		if !wm[v] {
			extra = append(extra, v)
		}
	}
	for _, v := range want {
		if !gm[v] {
			missing = append(missing, v)
		}
	}
	return fmt.Sprintf("got %d values, want %d; unexpected=%s missing=%s", len(got), len(want), vShow(extra), vShow(missing))
}

// model set helpers on sorted slices
func vUnion(a, b []uint64) []uint64 {
	out := append(append([]uint64(nil), a...), b...)
	return vSortUniq64(out)
}
func vHas(a []uint64, v uint64) bool {
	i := sort.Search(len(a), func(i int) bool { return a[i] >= v })
	return i < len(a) && a[i] == v
}
func vIntersect(a, b []uint64) []uint64 {
	var out []uint64
	for _, v := range a {
		if vHas(b, v) {
			out = append(out, v)
		}
	}
	return out
}
func vDifference(a, b []uint64) []uint64 {
	var out []uint64
	for _, v := range a {
		if !vHas(b, v) {
			out = append(out, v)
		}
	}
	return out
}
func vXor(a, b []uint64) []uint64 {
	return vUnion(vDifference(a, b), vDifference(b, a))
}
func vRange(a []uint64, start, end uint64) []uint64 {
	var out []uint64
	for _, v := range a {
		if v >= start && v < end {
			out = append(out, v)
		}
	}
	return out
}

// vGenPoint draws a value near the structure of the given model sets.
func vGenPoint(t *rapid.T, label string, keys []uint64, models ...[]uint64) uint64 {
	kind := rapid.IntRange(0, 5).Draw(t, label+".kind")
	var all []uint64
	for _, m := range models {
		all = append(all, m...)
	}
	switch {
	case kind <= 1 && len(all) > 0:
		v := all[rapid.IntRange(0, len(all)-1).Draw(t, label+".idx")]
		d := rapid.IntRange(-1, 1).Draw(t, label+".d")
		if d < 0 && v > 0 {
			return v - 1
		}
		if d > 0 && v < ^uint64(0) {
			return v + 1
		}
		return v
	case kind == 2:
		k := keys[rapid.IntRange(0, len(keys)-1).Draw(t, label+".k")]
		d := rapid.SampledFrom([]int64{-1, 0, 1, 65535, 65536, 65537}).Draw(t, label+".kd")
		return uint64(int64(k<<16) + d) // wraps harmlessly for k=0,d=-1
	case kind == 3:
		return rapid.SampledFrom([]uint64{0, 1, ^uint64(0), ^uint64(0) - 1, 1 << 63}).Draw(t, label+".const")
	case kind == 4:
		k := keys[rapid.IntRange(0, len(keys)-1).Draw(t, label+".k")]
		return k<<16 | uint64(rapid.Uint16().Draw(t, label+".low"))
	}
	return rapid.Uint64().Draw(t, label+".any")
}
