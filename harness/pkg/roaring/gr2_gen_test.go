package roaring

// Extra generators of the gR group (C02–C05), built on groar_gen_test.go.

import (
	"bytes"
	"fmt"
	"sort"

	"pgregory.net/rapid"
)

// keys that fit the official 32-bit format (container key < 2^16)
var vr2OffKeyPool = []uint64{0, 1, 2, 3, 15, 16, 17, 255, 4096, 65534, 65535}

// vr2GenOffKeys draws 1..7 keys < 2^16; >= 4 keys is common because the
// official format switches its layout (offset header) at 4 containers.
func vr2GenOffKeys(t *rapid.T, label string) []uint64 {
	n := rapid.SampledFrom([]int{1, 2, 3, 4, 4, 5, 6, 7}).Draw(t, label+".nkeys")
	ks := rapid.Permutation(vr2OffKeyPool).Draw(t, label+".keys")[:n]
	out := append([]uint64(nil), ks...)
	sort.Slice(out, func(i, j int) bool { return out[i] < out[j] })
	return out
}

// vr2GenSpecAllKeys is vGenBitmapSpec, except that every key of keys gets a
// container (vGenBitmapSpec picks a random subset) and a few shapes that
// matter to the serialised formats are added:
//
//	exact4096  : exactly 4096 scattered values (largest array container of the official format)
//	exact4097  : smallest bitset container
//	runs3plus  : >= 3 runs (more than fit a container's inline storage)
//	altBits    : every second value: 32768 runs (run count does not fit 14 bits) — rare, only when big
func vr2GenSpecAllKeys(t *rapid.T, label string, keys []uint64, allowBig bool) vBitmapSpec {
	var sp vBitmapSpec
	for i, k := range keys {
		l := fmt.Sprintf("%s.c%d", label, i)
		var shape string
		var vals []uint16
		lo := 0
		if !allowBig {
			lo = 3
		}
		special := rapid.IntRange(lo, 15).Draw(t, l+".special")
		switch special {
		case 0, 1:
			n := 4096 + special
			shape = fmt.Sprintf("exact%d", n)
			r := &vsm{rapid.Uint64().Draw(t, l+".seed")}
			seen := map[uint16]bool{}
			for len(seen) < n {
				seen[uint16(r.next())] = true
			}
			for v := range seen {
				vals = append(vals, v)
			}
			vals = vSortUniq16(vals)
		case 2:
			if rapid.IntRange(0, 5).Draw(t, l+".alt") == 0 {
				shape = "altBits"
				st := rapid.IntRange(0, 1).Draw(t, l+".altstart")
				for v := st; v < 65536; v += 2 {
					vals = append(vals, uint16(v))
				}
			} else {
				shape, vals = vGenVals(t, l, allowBig)
			}
		case 3, 4:
			shape = "runs3plus"
			nr := rapid.IntRange(3, 12).Draw(t, l+".nr")
			v := rapid.IntRange(0, 200).Draw(t, l+".start")
			for j := 0; j < nr && v < 65536; j++ {
				ln := rapid.IntRange(1, 40).Draw(t, l+".len")
				for q := 0; q < ln && v < 65536; q++ {
					vals = append(vals, uint16(v))
					v++
				}
				v += rapid.IntRange(1, 3000).Draw(t, l+".gap")
			}
		default:
			shape, vals = vGenVals(t, l, allowBig)
		}
		sp.Conts = append(sp.Conts, vContSpec{Key: k, Shape: shape, Vals: vals, Typ: vTypeFor(t, l, vals)})
	}
	sp.Enc = rapid.SampledFrom(vEncodings).Draw(t, label+".enc")
	return sp
}

func vr2NumRuns(vals []uint16) int { return len(vRunsOf(vals)) }

// vr2Payload renders the set of sp as import/decode input.
//
//	"pilosa"      : Bitmap.WriteTo of a bitmap holding the set (what Pilosa clients send / what snapshots hold)
//	"pilosaUnopt" : the same, container types exactly as the spec says (writeToUnoptimized)
//	"official"    : vr2OffEncode (keys must be < 2^16)
func vr2Payload(t *rapid.T, sp vBitmapSpec, format string) []byte {
	switch format {
	case "pilosa", "pilosaUnopt":
		b := NewBitmap()
		for _, c := range sp.Conts {
			b.Containers.Put(c.Key, vMakeContainer(c.Typ, c.Vals))
		}
		var buf bytes.Buffer
		var err error
		if format == "pilosa" {
			_, err = b.WriteTo(&buf)
		} else {
			_, err = b.writeToUnoptimized(&buf)
		}
		if err != nil {
			t.Fatalf("encoding payload: %v", err)
		}
		return buf.Bytes()
	case "official":
		return vr2OffEncode(vr2OffContsOf(sp))
	}
	panic("bad payload format " + format)
}

// vr2PayloadNonTrivial is the C04 rule: >= 2 container types in the payload, or a run
// container with > 2 runs, or >= 4 containers under the official run cookie.
func vr2PayloadNonTrivial(sp vBitmapSpec, format string) bool {
	types := map[byte]bool{}
	nonEmpty := 0
	anyRun := false
	for _, c := range sp.Conts {
		if len(c.Vals) == 0 {
			continue
		}
		nonEmpty++
		typ := c.Typ
		if format == "official" && typ != containerRun {
			typ = containerArray
			if len(c.Vals) > 4096 {
				typ = containerBitmap
			}
		}
		types[typ] = true
		if typ == containerRun {
			anyRun = true
			if vr2NumRuns(c.Vals) > 2 {
				return true
			}
		}
	}
	if len(types) >= 2 {
		return true
	}
	return format == "official" && anyRun && nonEmpty >= 4
}

func vr2NonEmptyConts(sp vBitmapSpec) int {
	n := 0
	for _, c := range sp.Conts {
		if len(c.Vals) > 0 {
			n++
		}
	}
	return n
}

// vr2RowDeltas computes the per-row change counts an import must report.
func vr2RowDeltas(changedVals []uint64, rowSize uint64, sign int) map[uint64]int {
	out := map[uint64]int{}
	for _, v := range changedVals {
		row := uint64(0)
		if rowSize != 0 {
			row = (v >> 16) / rowSize
		}
		out[row] += sign
	}
	return out
}

// vr2RowSetDiff compares a returned rowSet with the expected deltas (a row that is
// absent from a map counts as 0: the caller in fragment.go skips zero entries).
func vr2RowSetDiff(got, want map[uint64]int) string {
	keys := map[uint64]bool{}
	for k := range got {
		keys[k] = true
	}
	for k := range want {
		keys[k] = true
	}
	var ks []uint64
	for k := range keys {
		ks = append(ks, k)
	}
	sort.Slice(ks, func(i, j int) bool { return ks[i] < ks[j] })
	for _, k := range ks {
		if got[k] != want[k] {
			return fmt.Sprintf("row %d: reported %d, want %d", k, got[k], want[k])
		}
	}
	return ""
}

// vr2ReadAll compares every read path of b with the model m.
func vr2ReadAll(b *Bitmap, m []uint64) error {
	if err := vCheckStructure(b); err != nil {
		return fmt.Errorf("structure: %v", err)
	}
	if got := b.Count(); got != uint64(len(m)) {
		return fmt.Errorf("Count=%d want %d", got, len(m))
	}
	if got := b.Any(); got != (len(m) > 0) {
		return fmt.Errorf("Any=%v want %v", got, len(m) > 0)
	}
	if got := b.Slice(); !vEq(got, m) {
		return fmt.Errorf("Slice: %s", vDiff(got, m))
	}
	if got := vSliceByContainers(b); !vEq(got, m) {
		return fmt.Errorf("container walk: %s", vDiff(got, m))
	}
	var sum uint64
	it, _ := b.Containers.Iterator(0)
	first := true
	var prev uint64
	for it.Next() {
		k, c := it.Value()
		if !first && k <= prev {
			return fmt.Errorf("container walk: key %d follows key %d (keys must be ascending and unique)", k, prev)
		}
		first, prev = false, k
		sum += uint64(c.N())
		// the container the walk shows under k is the one point lookups use
		if g := b.Containers.Get(k); g != c {
			return fmt.Errorf("container walk shows another container under key %d than Containers.Get", k)
		}
	}
	if sum != uint64(len(m)) {
		return fmt.Errorf("sum of container N=%d want %d", sum, len(m))
	}
	if v, ok := b.Min(); len(m) > 0 && (!ok || v != m[0]) {
		return fmt.Errorf("Min=(%d,%v) want (%d,true)", v, ok, m[0])
	} else if len(m) == 0 && ok {
		return fmt.Errorf("Min reports %d for the empty set", v)
	}
	wantMax := uint64(0)
	if len(m) > 0 {
		wantMax = m[len(m)-1]
	}
	if got := b.Max(); got != wantMax {
		return fmt.Errorf("Max=%d want %d", got, wantMax)
	}
	return nil
}
