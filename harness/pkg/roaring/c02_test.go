package roaring

// C02 — Bitmap reads stay consistent with every mutation applied.
//
// rapid state machine over one logical bitmap that is kept twice: in a slice
// container collection (NewBitmap) and in a B-tree collection (NewBTreeBitmap,
// what NewFileBitmap returns). Every action is applied to both; after every
// action every read path of both is compared with the model set, and every
// mutation's reported change count / changed list / per-row deltas with the
// model's delta.

import (
	"bytes"
	"fmt"
	"sort"
	"strings"
	"testing"

	"github.com/pilosa/pilosa/internal/vkit"
	"pgregory.net/rapid"
)

type vc02Machine struct {
	kinds      []string
	bms        []*Bitmap
	backing    [][]byte // bytes a reloaded bitmap is mapped onto (nil: not mapped)
	pristine   [][]byte
	m          []uint64 // model, sorted
	keys       []uint64 // focus container keys
	offKeys    []uint64 // the focus keys that fit the official format
	touched    []uint64
	stage      map[uint64]int // per key: 1 touched, 2 then replaced (import/optimize/reload), 3 then touched again
	everKey    map[uint64]bool
	hist       []string
	classes    map[string]bool
	bigImports int
	bigN       int // prefilled containers (keys 100..100+bigN-1) in multi-page histories, else 0
}

func (s *vc02Machine) has(v uint64) bool { return vHas(s.m, v) }

type vc02FailWriter struct{}

func (vc02FailWriter) Write(p []byte) (int, error) {
	return 0, fmt.Errorf("verif: injected op-log write failure")
}

func (s *vc02Machine) modelAdd(v uint64) bool {
	i := sort.Search(len(s.m), func(i int) bool { return s.m[i] >= v })
	if i < len(s.m) && s.m[i] == v {
		return false
	}
	s.m = append(s.m, 0)
	copy(s.m[i+1:], s.m[i:])
	s.m[i] = v
	s.everKey[v>>16] = true
	return true
}

func (s *vc02Machine) modelRemove(v uint64) bool {
	i := sort.Search(len(s.m), func(i int) bool { return s.m[i] >= v })
	if i < len(s.m) && s.m[i] == v {
		s.m = append(s.m[:i], s.m[i+1:]...)
		return true
	}
	return false
}

func (s *vc02Machine) touch(vals ...uint64) {
	for _, v := range vals {
		k := v >> 16
		if s.stage[k] == 0 {
			s.stage[k] = 1
		} else if s.stage[k] == 2 {
			s.stage[k] = 3
		}
		s.touched = append(s.touched, v)
	}
	if len(s.touched) > 24 {
		s.touched = s.touched[len(s.touched)-24:]
	}
}

func (s *vc02Machine) replaced(keys ...uint64) {
	for _, k := range keys {
		if s.stage[k] == 1 {
			s.stage[k] = 2
		}
	}
}

func (s *vc02Machine) replacedAll() {
	for k, st := range s.stage {
		if st == 1 {
			s.stage[k] = 2
		}
	}
}

func (s *vc02Machine) nonTrivial() bool {
	for _, st := range s.stage {
		if st == 3 {
			return true
		}
	}
	return s.classes["optimizeWithEmptiedContainer"]
}

var vc02Lows = []uint16{0, 1, 2, 3, 5, 63, 64, 65, 4095, 4096, 65534, 65535}

func (s *vc02Machine) genVal(t *rapid.T, label string) uint64 {
	kind := rapid.IntRange(0, 9).Draw(t, label+".kind")
	if s.bigN > 0 && rapid.IntRange(0, 2).Draw(t, label+".anyKey") == 0 {
		// multi-page histories: any of the prefilled keys (every page, page boundaries included), low bits near the prefilled value
		k := uint64(100 + rapid.IntRange(0, s.bigN-1).Draw(t, label+".bigKey"))
		return k<<16 | uint64(rapid.IntRange(0, 8).Draw(t, label+".bigLow"))
	}
	switch {
	case kind <= 2 && len(s.m) > 0:
		v := s.m[rapid.IntRange(0, len(s.m)-1).Draw(t, label+".idx")]
		d := rapid.IntRange(-1, 1).Draw(t, label+".d")
		if d < 0 && v > 0 {
			return v - 1
		}
		if d > 0 && v < ^uint64(0) {
			return v + 1
		}
		return v
	case kind <= 4 && len(s.touched) > 0:
		return s.touched[rapid.IntRange(0, len(s.touched)-1).Draw(t, label+".tidx")]
	case kind <= 7:
		k := s.keys[rapid.IntRange(0, len(s.keys)-1).Draw(t, label+".k")]
		return k<<16 | uint64(rapid.SampledFrom(vc02Lows).Draw(t, label+".low"))
	default:
		k := s.keys[rapid.IntRange(0, len(s.keys)-1).Draw(t, label+".k")]
		return k<<16 | uint64(rapid.Uint16().Draw(t, label+".low16"))
	}
}

func (s *vc02Machine) genBatch(t *rapid.T, label string, max int) []uint64 {
	n := rapid.IntRange(1, max).Draw(t, label+".n")
	out := make([]uint64, n)
	for i := range out {
		out[i] = s.genVal(t, fmt.Sprintf("%s.%d", label, i))
	}
	return out
}

func (s *vc02Machine) log(format string, args ...interface{}) {
	s.hist = append(s.hist, fmt.Sprintf(format, args...))
}

func (s *vc02Machine) describe() string {
	h := s.hist
	if len(h) > 60 {
		h = h[len(h)-60:]
	}
	return fmt.Sprintf("focus keys %v; history: %s", s.keys, strings.Join(h, "; "))
}

// check compares every read path of both bitmaps with the model.
func (s *vc02Machine) check(t *rapid.T) {
	probes := map[uint64]bool{}
	for _, v := range s.touched {
		probes[v] = true
		if v > 0 {
			probes[v-1] = true
		}
		if v < ^uint64(0) {
			probes[v+1] = true
		}
	}
	var pl []uint64
	for v := range probes {
		pl = append(pl, v)
	}
	sort.Slice(pl, func(i, j int) bool { return pl[i] < pl[j] })
	focus, haveFocus := uint64(0), false
	if len(s.touched) > 0 && rapid.Bool().Draw(t, "focusRead") {
		focus, haveFocus = s.touched[rapid.IntRange(0, len(s.touched)-1).Draw(t, "focus")], true
	}
	defer func() {
		// the last read decides which container the lookasides hold when the next action starts
		if haveFocus {
			for i, b := range s.bms {
				if got := b.Contains(focus); got != s.has(focus) {
					t.Fatalf("%s bitmap: Contains(%d)=%v want %v\n%s", s.kinds[i], focus, got, !got, s.describe())
				}
			}
		}
	}()
	for i, b := range s.bms {
		if err := vr2ReadAll(b, s.m); err != nil {
			t.Fatalf("%s bitmap: %v\n%s", s.kinds[i], err, s.describe())
		}
		for _, v := range pl {
			if got := b.Contains(v); got != s.has(v) {
				t.Fatalf("%s bitmap: Contains(%d)=%v want %v\n%s", s.kinds[i], v, got, !got, s.describe())
			}
		}
		if len(pl) > 0 {
			x := pl[len(pl)/2]
			itr := b.Iterator()
			itr.Seek(x)
			idx := sort.Search(len(s.m), func(j int) bool { return s.m[j] >= x })
			v, eof := itr.Next()
			if idx >= len(s.m) {
				if !eof {
					t.Fatalf("%s bitmap: Seek(%d).Next()=%d want eof\n%s", s.kinds[i], x, v, s.describe())
				}
			} else if eof || v != s.m[idx] {
				t.Fatalf("%s bitmap: Seek(%d).Next()=(%d,eof=%v) want %d\n%s", s.kinds[i], x, v, eof, s.m[idx], s.describe())
			}
			ranges := [][2]uint64{{pl[0], pl[len(pl)-1]}}
			for _, y := range []uint64{pl[0], x, pl[len(pl)-1]} {
				// ranges inside one container (CountRange has a fast path for them)
				ranges = append(ranges, [2]uint64{y &^ 0xFFFF, y}, [2]uint64{y, y | 0xFFFF}, [2]uint64{y &^ 0xFFFF, y&^0xFFFF + 1})
			}
			for _, r := range ranges {
				if got, want := b.CountRange(r[0], r[1]), uint64(len(vRange(s.m, r[0], r[1]))); got != want {
					t.Fatalf("%s bitmap: CountRange(%d,%d)=%d want %d\n%s", s.kinds[i], r[0], r[1], got, want, s.describe())
				}
			}
		}
		if s.backing[i] != nil {
			if d := vr2FirstDiff(s.backing[i], s.pristine[i]); d != -1 {
				t.Fatalf("%s bitmap: the byte slice it was decoded from (a read-only mmap in production) was written at offset %d\n%s", s.kinds[i], d, s.describe())
			}
		}
	}
}

// expectedChanged returns, for a batch applied in order, the values that change the set (in order).
func vc02ExpectedChanged(s *vc02Machine, vals []uint64, add bool) []uint64 {
	var out []uint64
	for _, v := range vals {
		if add {
			if s.modelAdd(v) {
				out = append(out, v)
			}
		} else {
			if s.modelRemove(v) {
				out = append(out, v)
			}
		}
	}
	return out
}

func vc02Machinery(t *rapid.T) *vc02Machine {
	s := &vc02Machine{kinds: []string{"slice", "btree"}, stage: map[uint64]int{}, everKey: map[uint64]bool{}, classes: map[string]bool{}}
	s.bms = []*Bitmap{NewBitmap(), NewBTreeBitmap()}
	s.backing = make([][]byte, 2)
	s.pristine = make([][]byte, 2)
	// focus keys: key 0 always, 2-3 more
	pool := []uint64{1, 2, 16, 17, 65535, 65536, 0x123456789a, maxContainerKey}
	n := rapid.IntRange(2, 3).Draw(t, "nkeys")
	ks := rapid.Permutation(pool).Draw(t, "keys")[:n]
	s.keys = vSortUniq64(append([]uint64{0}, ks...))
	for _, k := range s.keys {
		if k < 1<<16 {
			s.offKeys = append(s.offKeys, k)
		}
	}
	// one history in ten starts from a multi-page B-tree (> 2*kd containers)
	if rapid.IntRange(0, 9).Draw(t, "bigTree") == 0 {
		nc := rapid.IntRange(2*kd+2, 2*kd+700).Draw(t, "bigTree.n")
		vals := make([]uint64, 0, nc)
		for i := 0; i < nc; i++ {
			vals = append(vals, uint64(100+i)<<16|uint64(i%7))
		}
		for _, b := range s.bms {
			if got := b.DirectAddN(append([]uint64(nil), vals...)...); got != nc {
				t.Fatalf("prefill DirectAddN of %d new values reports %d", nc, got)
			}
		}
		for _, v := range vals {
			s.modelAdd(v)
		}
		s.classes["bigTree"] = true
		s.bigN = nc
		s.log("prefill %d containers (keys 100..%d)", nc, 100+nc-1)
	}
	return s
}

func (s *vc02Machine) actions(t *rapid.T) map[string]func(*rapid.T) {
	batchCheck := func(t *rapid.T, name string, i int, in, buf []uint64, got int, want []uint64) {
		if got != len(want) {
			t.Fatalf("%s bitmap: %s(%v) reports %d changed, want %d (%v)\n%s", s.kinds[i], name, in, got, len(want), want, s.describe())
		}
		if !vEq(buf[:got], want) {
			t.Fatalf("%s bitmap: %s(%v) left a[:changed]=%v, want the changed values %v\n%s", s.kinds[i], name, in, buf[:got], want, s.describe())
		}
	}
	return map[string]func(*rapid.T){
		"": s.check,
		"Add": func(t *rapid.T) {
			vals := s.genBatch(t, "add", 3)
			s.log("Add%v", vals)
			want := len(vc02ExpectedChanged(s, vals, true)) > 0
			for i, b := range s.bms {
				got, err := b.Add(append([]uint64(nil), vals...)...)
				if err != nil || got != want {
					t.Fatalf("%s bitmap: Add(%v)=(%v,%v) want %v\n%s", s.kinds[i], vals, got, err, want, s.describe())
				}
			}
			s.touch(vals...)
		},
		"Remove": func(t *rapid.T) {
			vals := s.genBatch(t, "rm", 3)
			s.log("Remove%v", vals)
			want := len(vc02ExpectedChanged(s, vals, false)) > 0
			for i, b := range s.bms {
				got, err := b.Remove(append([]uint64(nil), vals...)...)
				if err != nil || got != want {
					t.Fatalf("%s bitmap: Remove(%v)=(%v,%v) want %v\n%s", s.kinds[i], vals, got, err, want, s.describe())
				}
			}
			s.touch(vals...)
		},
		"AddN": func(t *rapid.T) {
			vals := s.genBatch(t, "addn", 8)
			s.log("AddN%v", vals)
			want := vc02ExpectedChanged(s, vals, true)
			for i, b := range s.bms {
				buf := append([]uint64(nil), vals...)
				got, err := b.AddN(buf...)
				if err != nil {
					t.Fatalf("AddN: %v", err)
				}
				batchCheck(t, "AddN", i, vals, buf, got, want)
			}
			s.touch(vals...)
			if len(want) < len(vals) {
				s.classes["batchPartlyUnchanged"] = true
			}
		},
		"RemoveN": func(t *rapid.T) {
			vals := s.genBatch(t, "rmn", 8)
			s.log("RemoveN%v", vals)
			want := vc02ExpectedChanged(s, vals, false)
			for i, b := range s.bms {
				buf := append([]uint64(nil), vals...)
				got, err := b.RemoveN(buf...)
				if err != nil {
					t.Fatalf("RemoveN: %v", err)
				}
				batchCheck(t, "RemoveN", i, vals, buf, got, want)
			}
			s.touch(vals...)
			if len(want) < len(vals) {
				s.classes["batchPartlyUnchanged"] = true
			}
		},
		// (lead, after seeded change C02-a) a batch whose op-log write fails must report 0 changed bits and leave the
		// bitmap as it was: AddN/RemoveN undo what they applied ("reset data since we're returning an error"), Add/Remove
		// log before they apply. The model is not touched; the invariant after the step compares every read path.
		"FailedLogWrite": func(t *rapid.T) {
			vals := s.genBatch(t, "flw", 6)
			op := rapid.SampledFrom([]string{"AddN", "RemoveN", "Add", "Remove"}).Draw(t, "flw.op")
			s.log("%s%v with failing op writer", op, vals)
			for i, b := range s.bms {
				old := b.OpWriter
				b.OpWriter = vc02FailWriter{}
				buf := append([]uint64(nil), vals...)
				var n int
				var ch bool
				var err error
				switch op {
				case "AddN":
					n, err = b.AddN(buf...)
				case "RemoveN":
					n, err = b.RemoveN(buf...)
				case "Add":
					ch, err = b.Add(buf...)
				case "Remove":
					ch, err = b.Remove(buf...)
				}
				b.OpWriter = old
				if err == nil {
					t.Fatalf("%s bitmap: %s(%v) with a failing op writer returned no error\n%s", s.kinds[i], op, vals, s.describe())
				}
				if n != 0 || ch {
					t.Fatalf("%s bitmap: %s(%v) failed (%v) but reports a change (%d,%v)\n%s", s.kinds[i], op, vals, err, n, ch, s.describe())
				}
			}
			s.classes["failedLogWrite"] = true
			for _, v := range vals {
				s.touched = append(s.touched, v)
			}
		},
		"DirectAdd": func(t *rapid.T) {
			v := s.genVal(t, "dadd")
			s.log("DirectAdd(%d)", v)
			want := s.modelAdd(v)
			for i, b := range s.bms {
				if got := b.DirectAdd(v); got != want {
					t.Fatalf("%s bitmap: DirectAdd(%d)=%v want %v\n%s", s.kinds[i], v, got, want, s.describe())
				}
			}
			s.touch(v)
		},
		"DirectAddN": func(t *rapid.T) {
			vals := s.genBatch(t, "daddn", 8)
			s.log("DirectAddN%v", vals)
			want := vc02ExpectedChanged(s, vals, true)
			for i, b := range s.bms {
				buf := append([]uint64(nil), vals...)
				got := b.DirectAddN(buf...)
				batchCheck(t, "DirectAddN", i, vals, buf, got, want)
			}
			s.touch(vals...)
		},
		"DirectRemoveN": func(t *rapid.T) {
			vals := s.genBatch(t, "drmn", 8)
			s.log("DirectRemoveN%v", vals)
			want := vc02ExpectedChanged(s, vals, false)
			for i, b := range s.bms {
				buf := append([]uint64(nil), vals...)
				got := b.DirectRemoveN(buf...)
				batchCheck(t, "DirectRemoveN", i, vals, buf, got, want)
			}
			s.touch(vals...)
		},
		"RemoveKeyRange": func(t *rapid.T) {
			// empty a stretch of prefilled containers (bigTree histories), so that a later Optimize deletes many keys while enumerating
			if !s.classes["bigTree"] {
				t.Skip("no prefilled containers")
			}
			lo := uint64(rapid.IntRange(100, 100+2*kd+700).Draw(t, "rk.lo"))
			ln := uint64(rapid.IntRange(1, 600).Draw(t, "rk.len"))
			vals := vRange(s.m, lo<<16, (lo+ln)<<16)
			if len(vals) == 0 {
				t.Skip("nothing there")
			}
			s.log("RemoveN(all %d values of keys %d..%d)", len(vals), lo, lo+ln-1)
			want := vc02ExpectedChanged(s, vals, false)
			for i, b := range s.bms {
				buf := append([]uint64(nil), vals...)
				got := b.DirectRemoveN(buf...)
				if got != len(want) {
					t.Fatalf("%s bitmap: DirectRemoveN of %d present values reports %d\n%s", s.kinds[i], len(want), got, s.describe())
				}
			}
			s.touch(vals[0], vals[len(vals)-1])
		},
		"ImportSweep": func(t *rapid.T) {
			// multi-page histories: one import (set or clear) that touches EVERY container of a key range, so that
			// Containers.Update is exercised for the first/last key of every B-tree page and for the keys in between
			if s.bigN == 0 {
				t.Skip("no prefilled containers")
			}
			lo, n := 0, s.bigN
			if rapid.Bool().Draw(t, "sweep.part") {
				lo = rapid.IntRange(0, s.bigN-1).Draw(t, "sweep.lo")
				n = rapid.IntRange(1, s.bigN-lo).Draw(t, "sweep.n")
			}
			step := rapid.SampledFrom([]int{1, 1, 1, 2, 3}).Draw(t, "sweep.step")
			low := rapid.IntRange(-1, 8).Draw(t, "sweep.low") // -1: the value each container was prefilled with
			clear := rapid.Bool().Draw(t, "sweep.clear")
			official := rapid.Bool().Draw(t, "sweep.official")
			rowSize := rapid.SampledFrom([]uint64{0, 16}).Draw(t, "sweep.rowSize")
			var ms []uint64
			var conts []vr2OffCont
			for i := lo; i < lo+n; i += step {
				l := uint16(i % 7)
				if low >= 0 {
					l = uint16(low)
				}
				ms = append(ms, uint64(100+i)<<16|uint64(l))
				conts = append(conts, vr2OffCont{Key: uint16(100 + i), Vals: []uint16{l}})
			}
			s.log("ImportRoaringBits(sweep keys %d..%d step %d low %d, official=%v, clear=%v, rowSize=%d)", 100+lo, 100+lo+n-1, step, low, official, clear, rowSize)
			var changedVals []uint64
			sign := 1
			if clear {
				changedVals = vIntersect(s.m, ms)
				s.m = vDifference(s.m, ms)
				sign = -1
			} else {
				changedVals = vDifference(ms, s.m)
				s.m = vUnion(s.m, ms)
				for _, v := range ms {
					s.everKey[v>>16] = true
				}
			}
			wantRows := vr2RowDeltas(changedVals, rowSize, sign)
			for i, b := range s.bms {
				var data []byte
				if official {
					data = vr2OffEncode(conts)
				} else {
					var buf bytes.Buffer
					if _, err := NewBitmap(ms...).WriteTo(&buf); err != nil {
						t.Fatalf("WriteTo: %v", err)
					}
					data = buf.Bytes()
				}
				changed, rowSet, err := b.ImportRoaringBits(data, clear, false, rowSize)
				if err != nil {
					t.Fatalf("%s bitmap: sweep ImportRoaringBits: %v\n%s", s.kinds[i], err, s.describe())
				}
				if changed != len(changedVals) {
					t.Fatalf("%s bitmap: sweep import reports changed=%d want %d\n%s", s.kinds[i], changed, len(changedVals), s.describe())
				}
				if d := vr2RowSetDiff(rowSet, wantRows); d != "" {
					t.Fatalf("%s bitmap: sweep import rowSet: %s\n%s", s.kinds[i], d, s.describe())
				}
				for j := range data {
					data[j] = 0xAA
				}
			}
			for _, v := range ms {
				s.replaced(v >> 16)
			}
			s.touch(ms[0], ms[len(ms)-1])
			s.classes["importSweep"] = true
			if clear {
				s.classes["importSweep:clear"] = true
			}
		},
		"Import": func(t *rapid.T) {
			format := rapid.SampledFrom([]string{"pilosa", "pilosaUnopt", "official"}).Draw(t, "imp.format")
			keys := s.keys
			if format == "official" {
				keys = s.offKeys
			}
			allowBig := s.bigImports < 2 && rapid.IntRange(0, 3).Draw(t, "imp.big") == 0
			if allowBig {
				s.bigImports++
			}
			sp := vGenBitmapSpec(t, "imp", keys, allowBig)
			if format == "official" && vr2NonEmptyConts(sp) == 0 {
				t.Skip("an official stream needs a container")
			}
			clear := rapid.Bool().Draw(t, "imp.clear")
			rowSize := rapid.SampledFrom([]uint64{0, 16}).Draw(t, "imp.rowSize")
			ms := sp.model()
			s.log("ImportRoaringBits(%s %s, clear=%v, rowSize=%d)", format, sp.describe(), clear, rowSize)
			var changedVals []uint64
			sign := 1
			if clear {
				changedVals = vIntersect(s.m, ms)
				s.m = vDifference(s.m, ms)
				sign = -1
			} else {
				changedVals = vDifference(ms, s.m)
				s.m = vUnion(s.m, ms)
				for _, cs := range sp.Conts {
					if len(cs.Vals) > 0 {
						s.everKey[cs.Key] = true
					}
				}
			}
			wantRows := vr2RowDeltas(changedVals, rowSize, sign)
			for i, b := range s.bms {
				data := vr2Payload(t, sp, format)
				orig := vr2CopyBytes(data)
				changed, rowSet, err := b.ImportRoaringBits(data, clear, false, rowSize)
				if err != nil {
					t.Fatalf("%s bitmap: ImportRoaringBits: %v\n%s", s.kinds[i], err, s.describe())
				}
				if changed != len(changedVals) {
					t.Fatalf("%s bitmap: import reports changed=%d want %d\n%s", s.kinds[i], changed, len(changedVals), s.describe())
				}
				if d := vr2RowSetDiff(rowSet, wantRows); d != "" {
					t.Fatalf("%s bitmap: import rowSet: %s\n%s", s.kinds[i], d, s.describe())
				}
				if d := vr2FirstDiff(data, orig); d != -1 {
					t.Fatalf("%s bitmap: import modified its payload at byte %d\n%s", s.kinds[i], d, s.describe())
				}
				// the payload buffer belongs to the caller: poison it, the bitmap must not depend on it
				for j := range data {
					data[j] = 0xAA
				}
			}
			for _, cs := range sp.Conts {
				if len(cs.Vals) > 0 {
					s.replaced(cs.Key)
				}
			}
			s.classes["import:"+format] = true
			if len(changedVals) == 0 {
				s.classes["importChangesNothing"] = true
			}
		},
		"Optimize": func(t *rapid.T) {
			s.log("Optimize")
			withVals := map[uint64]bool{}
			for _, v := range s.m {
				withVals[v>>16] = true
			}
			for k := range s.everKey {
				if !withVals[k] {
					s.classes["optimizeWithEmptiedContainer"] = true
				}
			}
			for _, b := range s.bms {
				b.Optimize()
			}
			s.replacedAll()
		},
		"Reload": func(t *rapid.T) {
			inPlace := rapid.Bool().Draw(t, "reload.inPlace")
			s.log("Reload(inPlace=%v)", inPlace)
			for i, b := range s.bms {
				var buf bytes.Buffer
				if _, err := b.WriteTo(&buf); err != nil {
					t.Fatalf("WriteTo: %v", err)
				}
				data := buf.Bytes()
				nb := b
				if !inPlace {
					if s.kinds[i] == "slice" {
						nb = NewBitmap()
					} else {
						nb = NewBTreeBitmap()
					}
				}
				if err := nb.UnmarshalBinary(data); err != nil {
					t.Fatalf("%s bitmap: UnmarshalBinary of own WriteTo: %v\n%s", s.kinds[i], err, s.describe())
				}
				// the previous backing bytes are no longer referenced by anything: poison them
				if s.backing[i] != nil {
					for j := range s.backing[i] {
						s.backing[i][j] = 0xAA
					}
				}
				s.bms[i] = nb
				s.backing[i] = data
				s.pristine[i] = vr2CopyBytes(data)
			}
			s.replacedAll()
			s.classes["reload"] = true
		},
		"Read": func(t *rapid.T) {
			v := s.genVal(t, "read")
			s.log("Contains(%d)", v)
			for i, b := range s.bms {
				if got := b.Contains(v); got != s.has(v) {
					t.Fatalf("%s bitmap: Contains(%d)=%v want %v\n%s", s.kinds[i], v, got, !got, s.describe())
				}
				c := b.Containers.Get(v >> 16)
				base := (v >> 16) << 16
				n := len(vRange(s.m, base, base+65535)) // [base, base+65535)
				if s.has(base + 65535) {
					n++
				}
				if int(c.N()) != n {
					t.Fatalf("%s bitmap: Containers.Get(%d).N()=%d want %d\n%s", s.kinds[i], v>>16, c.N(), n, s.describe())
				}
			}
			s.touch(v)
		},
	}
}

// TestVerifC02_Machine: the state machine described at the top of this file.
func TestVerifC02_Machine(t *testing.T) {
	defer vkit.Flush()
	rapid.Check(t, func(t *rapid.T) {
		c := vkit.NewCase()
		s := vc02Machinery(t)
		defer func() {
			c.Key("c02", s.keys, strings.Join(s.hist, ";"))
			for cl := range s.classes {
				c.Class(cl)
			}
			c.NT(s.nonTrivial())
			c.ClassIf(s.nonTrivial() && !s.classes["optimizeWithEmptiedContainer"], "touch-replace-touch")
			h := s.hist
			if len(h) > 14 {
				h = append(append([]string(nil), h[:14]...), fmt.Sprintf("… (%d steps)", len(s.hist)))
			}
			c.Sample(map[string]interface{}{"focusKeys": s.keys, "history": h})
			c.Done()
		}()
		t.Repeat(s.actions(t))
	})
}
