package roaring

// Deterministic witnesses of the defects recorded in /verif/known_findings.json
// (minimal inputs, no generators). A witness fails while its defect is present.

import (
	"bytes"
	"testing"
)

// D1: runCountRange ignored runs starting at `start` / ending at `end`.
func TestVerifWitness_D1(t *testing.T) {
	b := NewBitmap()
	b.Containers.Put(0, NewContainerRun([]interval16{{start: 0, last: 1}}))
	if got := b.CountRange(0, 1); got != 1 {
		t.Fatalf("CountRange(0,1) on run [0,1] = %d, want 1", got)
	}
	b.Containers.Put(1, NewContainerRun([]interval16{{start: 0, last: 65535}}))
	if got := b.CountRange(0, 65538); got != 4 {
		t.Fatalf("CountRange(0,65538) = %d, want 4", got)
	}
}

// D30: Max() with an emptied highest container.
func TestVerifWitness_D30(t *testing.T) {
	b := NewBitmap(5, 70000)
	if _, err := b.Remove(70000); err != nil {
		t.Fatal(err)
	}
	if got := b.Max(); got != 5 {
		t.Fatalf("Max() of {5,70000} minus 70000 = %d, want 5", got)
	}
	b2 := NewBitmap(5)
	if _, err := b2.RemoveN(70000); err != nil {
		t.Fatal(err)
	}
	if got := b2.Max(); got != 5 {
		t.Fatalf("Max() of {5} after RemoveN(70000) = %d, want 5", got)
	}
}

// D31: WriteTo announced nil containers in the header.
func TestVerifWitness_D31(t *testing.T) {
	b := NewBitmap(1, 70000)
	if _, err := b.Remove(70000); err != nil {
		t.Fatal(err)
	}
	var buf bytes.Buffer
	if _, err := b.WriteTo(&buf); err != nil {
		t.Fatal(err)
	}
	d := NewBitmap()
	if err := d.UnmarshalBinary(buf.Bytes()); err != nil {
		t.Fatalf("decoding own encoding of {1} (after removing 70000): %v", err)
	}
	if got := d.Slice(); len(got) != 1 || got[0] != 1 {
		t.Fatalf("decoded %v, want [1]", got)
	}
}

// D2: B-tree lookaside zero-valued / stale after tree changes behind it.
func TestVerifWitness_D2(t *testing.T) {
	var buf bytes.Buffer
	if _, err := NewBitmap(1, 2, 3).WriteTo(&buf); err != nil {
		t.Fatal(err)
	}
	b := NewBTreeBitmap()
	if _, _, err := b.ImportRoaringBits(buf.Bytes(), false, false, 0); err != nil {
		t.Fatal(err)
	}
	if !b.Contains(1) {
		t.Fatalf("Contains(1) false right after importing {1,2,3} into a fresh B-tree bitmap")
	}
	if _, _, err := b.ImportRoaringBits(buf.Bytes(), true, false, 0); err != nil {
		t.Fatal(err)
	}
	if b.Contains(1) {
		t.Fatalf("Contains(1) true after clear-import of {1,2,3}")
	}
	c := NewBTreeBitmap(7).Clone()
	if !c.Contains(7) {
		t.Fatalf("Clone of B-tree bitmap {7}: Contains(7) false")
	}
	u := NewBTreeBitmap(0).Union(NewBitmap(1), NewBitmap())
	if got := u.Slice(); len(got) != 2 {
		t.Fatalf("B-tree {0} Union({1},{}) = %v, want [0 1]", got)
	}
}

// D32: Shift lost the carry into an existing empty container.
func TestVerifWitness_D32(t *testing.T) {
	b := NewBitmap(65535)
	if _, err := b.RemoveN(65536 + 9); err != nil { // leaves an empty container at key 1
		t.Fatal(err)
	}
	s, err := b.Shift(1)
	if err != nil {
		t.Fatal(err)
	}
	if got := s.Slice(); len(got) != 1 || got[0] != 65536 {
		t.Fatalf("Shift({65535}) with an empty container at key 1 = %v, want [65536]", got)
	}
}
