package roaring

// Helpers shared by the C02/C03/C04/C05 checks (tag gr2).
//
// vr2OffEncode / vr2OffDecode: an independent codec of the official
// RoaringFormatSpec (https://github.com/RoaringBitmap/RoaringFormatSpec),
// written from the specification, 32-bit values only:
//
//   cookie header   no run containers : uint32 12346, uint32 container count
//                   run containers    : uint32 (count-1)<<16 | 12347, then ceil(count/8)
//                                       bytes, bit i set <=> container i is a run container
//   descriptive hdr per container: uint16 key, uint16 cardinality-1
//   offset header   present iff (no run containers) or count >= 4:
//                   per container uint32 offset of its data from the start of the stream
//   containers      array  (cardinality <= 4096): sorted uint16 values
//                   bitset (cardinality  > 4096): 1024 uint64 words
//                   run    : uint16 number of runs, then (uint16 start, uint16 length-1) pairs
//
// All integers little endian. It is calibrated against the repository's
// fixtures (TestVerifC04_Calibration) before it is used as an oracle.

import (
	"encoding/binary"
	"fmt"
)

type vr2OffCont struct {
	Key  uint16
	Run  bool
	Vals []uint16 // sorted, unique, non-empty
}

const (
	vr2CookieNoRun = 12346
	vr2CookieRun   = 12347
)

// vr2OffEncode encodes the containers (ascending keys, all non-empty).
// The run cookie is used iff at least one container asks for run encoding.
// forceOffsets=false follows the specification exactly.
func vr2OffEncode(conts []vr2OffCont) []byte {
	n := len(conts)
	anyRun := false
	for _, c := range conts {
		if c.Run {
			anyRun = true
		}
		if len(c.Vals) == 0 {
			panic("vr2OffEncode: empty container")
		}
	}
	var out []byte
	u16 := func(v uint16) { out = append(out, byte(v), byte(v>>8)) }
	u32 := func(v uint32) { out = append(out, byte(v), byte(v>>8), byte(v>>16), byte(v>>24)) }
	if anyRun {
		if n < 1 || n > 65536 {
			panic("vr2OffEncode: run cookie needs 1..65536 containers")
		}
		u32(uint32(n-1)<<16 | vr2CookieRun)
		bm := make([]byte, (n+7)/8)
		for i, c := range conts {
			if c.Run {
				bm[i/8] |= 1 << uint(i%8)
			}
		}
		out = append(out, bm...)
	} else {
		u32(vr2CookieNoRun)
		u32(uint32(n))
	}
	for _, c := range conts {
		u16(c.Key)
		u16(uint16(len(c.Vals) - 1))
	}
	hasOffsets := !anyRun || n >= 4
	// container bodies
	bodies := make([][]byte, n)
	for i, c := range conts {
		var b []byte
		switch {
		case c.Run:
			var runs [][2]uint16
			for j := 0; j < len(c.Vals); {
				k := j
				for k+1 < len(c.Vals) && c.Vals[k+1] == c.Vals[k]+1 {
					k++
				}
				runs = append(runs, [2]uint16{c.Vals[j], c.Vals[k] - c.Vals[j]})
				j = k + 1
			}
			b = make([]byte, 2+4*len(runs))
			binary.LittleEndian.PutUint16(b, uint16(len(runs)))
			for j, r := range runs {
				binary.LittleEndian.PutUint16(b[2+4*j:], r[0])
				binary.LittleEndian.PutUint16(b[4+4*j:], r[1])
			}
		case len(c.Vals) <= 4096:
			b = make([]byte, 2*len(c.Vals))
			for j, v := range c.Vals {
				binary.LittleEndian.PutUint16(b[2*j:], v)
			}
		default:
			b = make([]byte, 8192)
			for _, v := range c.Vals {
				b[v/8] |= 1 << (v % 8) // little-endian uint64 words == byte-wise bit order
			}
		}
		bodies[i] = b
	}
	if hasOffsets {
		off := uint32(len(out) + 4*n)
		for i := range conts {
			u32(off)
			off += uint32(len(bodies[i]))
		}
	}
	for _, b := range bodies {
		out = append(out, b...)
	}
	return out
}

// vr2OffDecode is the matching independent decoder (used for calibration only).
func vr2OffDecode(data []byte) ([]vr2OffCont, error) {
	if len(data) < 8 {
		return nil, fmt.Errorf("short")
	}
	pos := 0
	ck := binary.LittleEndian.Uint32(data)
	pos = 4
	var n int
	var isRun []byte
	anyRunCookie := false
	switch {
	case ck == vr2CookieNoRun:
		n = int(binary.LittleEndian.Uint32(data[4:]))
		pos = 8
	case ck&0xffff == vr2CookieRun:
		anyRunCookie = true
		n = int(ck>>16) + 1
		isRun = data[pos : pos+(n+7)/8]
		pos += (n + 7) / 8
	default:
		return nil, fmt.Errorf("bad cookie %d", ck)
	}
	conts := make([]vr2OffCont, n)
	cards := make([]int, n)
	for i := 0; i < n; i++ {
		conts[i].Key = binary.LittleEndian.Uint16(data[pos:])
		cards[i] = int(binary.LittleEndian.Uint16(data[pos+2:])) + 1
		pos += 4
		if isRun != nil && isRun[i/8]&(1<<uint(i%8)) != 0 {
			conts[i].Run = true
		}
	}
	var offsets []uint32
	if !anyRunCookie || n >= 4 {
		for i := 0; i < n; i++ {
			offsets = append(offsets, binary.LittleEndian.Uint32(data[pos:]))
			pos += 4
		}
	}
	for i := 0; i < n; i++ {
		if offsets != nil {
			if int(offsets[i]) != pos {
				return nil, fmt.Errorf("container %d: offset header says %d, sequential position is %d", i, offsets[i], pos)
			}
		}
		switch {
		case conts[i].Run:
			nr := int(binary.LittleEndian.Uint16(data[pos:]))
			pos += 2
			for j := 0; j < nr; j++ {
				st := int(binary.LittleEndian.Uint16(data[pos:]))
				ln := int(binary.LittleEndian.Uint16(data[pos+2:]))
				pos += 4
				for v := st; v <= st+ln; v++ {
					conts[i].Vals = append(conts[i].Vals, uint16(v))
				}
			}
		case cards[i] <= 4096:
			for j := 0; j < cards[i]; j++ {
				conts[i].Vals = append(conts[i].Vals, binary.LittleEndian.Uint16(data[pos:]))
				pos += 2
			}
		default:
			for v := 0; v < 65536; v++ {
				if data[pos+v/8]&(1<<uint(v%8)) != 0 {
					conts[i].Vals = append(conts[i].Vals, uint16(v))
				}
			}
			pos += 8192
		}
		if len(conts[i].Vals) != cards[i] {
			return nil, fmt.Errorf("container %d: header cardinality %d, body holds %d", i, cards[i], len(conts[i].Vals))
		}
	}
	if pos != len(data) {
		return nil, fmt.Errorf("trailing bytes: consumed %d of %d", pos, len(data))
	}
	return conts, nil
}

func vr2OffModel(conts []vr2OffCont) []uint64 {
	var m []uint64
	for _, c := range conts {
		for _, v := range c.Vals {
			m = append(m, uint64(c.Key)<<16|uint64(v))
		}
	}
	return m
}

// vr2OffContsOf turns a generated bitmap spec (keys < 2^16) into official
// containers: the spec's run-typed containers become run containers, the rest
// array/bitset by cardinality as the specification demands. Empty containers
// cannot be expressed in the format (cardinality-1) and are dropped.
func vr2OffContsOf(sp vBitmapSpec) []vr2OffCont {
	var out []vr2OffCont
	for _, c := range sp.Conts {
		if len(c.Vals) == 0 {
			continue
		}
		if c.Key > 0xffff {
			panic("vr2OffContsOf: key does not fit the 32-bit format")
		}
		out = append(out, vr2OffCont{Key: uint16(c.Key), Run: c.Typ == containerRun, Vals: c.Vals})
	}
	return out
}

func vr2CopyBytes(b []byte) []byte { return append([]byte(nil), b...) }

func vr2FirstDiff(a, b []byte) int {
	if len(a) != len(b) {
		return -2
	}
	for i := range a {
		if a[i] != b[i] {
			return i
		}
	}
	return -1
}
