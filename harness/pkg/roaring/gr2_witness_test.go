package roaring

// Deterministic witnesses of the defects found by the gR group (C02–C05, C03 roaring layer);
// recorded in /verif/known_findings.d/gR.json. A witness fails while its defect is present.

import (
	"bytes"
	"testing"
)

func vr2WitnessBytes(t *testing.T, b *Bitmap) []byte {
	var buf bytes.Buffer
	if _, err := b.WriteTo(&buf); err != nil {
		t.Fatal(err)
	}
	return buf.Bytes()
}

// DR1: sliceContainers lookaside (GetOrCreate) not updated by Put/Update/UpdateEvery.
func TestVerifWitness_DR1(t *testing.T) {
	b := NewBitmap(5)
	if _, err := b.Remove(5); err != nil {
		t.Fatal(err)
	}
	if _, err := b.Add(5); err != nil {
		t.Fatal(err)
	}
	if !b.Contains(5) || b.Count() != 1 {
		t.Fatalf("NewBitmap(5); Remove(5); Add(5): Contains(5)=%v Count=%d, want true 1", b.Contains(5), b.Count())
	}
	f := NewBitmap(1).Freeze()
	f.Add(2)
	f.Add(3)
	if got := f.Slice(); len(got) != 3 {
		t.Fatalf("NewBitmap(1).Freeze() then Add(2), Add(3) = %v, want [1 2 3]", got)
	}
	// a container replaced by an import (Containers.Update) must not be served from the lookaside either
	c := NewBitmap(1, 2)
	if _, _, err := c.ImportRoaringBits(vr2WitnessBytes(t, NewBitmap(1)), true, false, 0); err != nil {
		t.Fatal(err)
	}
	c.Add(1)
	if got := c.Slice(); len(got) != 2 {
		t.Fatalf("{1,2} clear-import {1} then Add(1) = %v, want [1 2]", got)
	}
}

// DR2: sliceContainers.Update inserted a new key at a negative index.
func TestVerifWitness_DR2(t *testing.T) {
	b := NewBitmap()
	changed, _, err := b.ImportRoaringBits(vr2WitnessBytes(t, NewBitmap(1)), false, false, 0)
	if err != nil {
		t.Fatal(err)
	}
	if changed != 1 || !b.Contains(1) {
		t.Fatalf("import of {1} into an empty slice bitmap: changed=%d Contains(1)=%v", changed, b.Contains(1))
	}
	b2 := NewBitmap(1, 5<<16)
	if _, _, err := b2.ImportRoaringBits(vr2WitnessBytes(t, NewBitmap(2<<16)), false, false, 0); err != nil {
		t.Fatal(err)
	}
	if got := b2.Slice(); len(got) != 3 || got[1] != 2<<16 {
		t.Fatalf("import of {2<<16} into {1, 5<<16} = %v", got)
	}
}
