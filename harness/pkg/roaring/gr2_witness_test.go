package roaring

// Deterministic witnesses of the defects found by the gR group (C02–C05, C03 roaring layer);
// recorded in /verif/known_findings.d/gR.json. A witness fails while its defect is present.

import (
	"bytes"
	"testing"
)

func vr2WitnessBytes(t *testing.T, b *Bitmap) []byte {
	var buf bytes.Buffer
	if _, err := b.WriteTo(&buf); err != nil {
		t.Fatal(err)
	}
	return buf.Bytes()
}

// DR1: sliceContainers lookaside (GetOrCreate) not updated by Put/Update/UpdateEvery.
func TestVerifWitness_DR1(t *testing.T) {
	b := NewBitmap(5)
	if _, err := b.Remove(5); err != nil {
		t.Fatal(err)
	}
	if _, err := b.Add(5); err != nil {
		t.Fatal(err)
	}
	if !b.Contains(5) || b.Count() != 1 {
		t.Fatalf("NewBitmap(5); Remove(5); Add(5): Contains(5)=%v Count=%d, want true 1", b.Contains(5), b.Count())
	}
	f := NewBitmap(1).Freeze()
	f.Add(2)
	f.Add(3)
	if got := f.Slice(); len(got) != 3 {
		t.Fatalf("NewBitmap(1).Freeze() then Add(2), Add(3) = %v, want [1 2 3]", got)
	}
	// a container replaced by an import (Containers.Update) must not be served from the lookaside either
	c := NewBitmap(1, 2)
	if _, _, err := c.ImportRoaringBits(vr2WitnessBytes(t, NewBitmap(1)), true, false, 0); err != nil {
		t.Fatal(err)
	}
	c.Add(1)
	if got := c.Slice(); len(got) != 2 {
		t.Fatalf("{1,2} clear-import {1} then Add(1) = %v, want [1 2]", got)
	}
}

// DR2: sliceContainers.Update inserted a new key at a negative index.
func TestVerifWitness_DR2(t *testing.T) {
	b := NewBitmap()
	changed, _, err := b.ImportRoaringBits(vr2WitnessBytes(t, NewBitmap(1)), false, false, 0)
	if err != nil {
		t.Fatal(err)
	}
	if changed != 1 || !b.Contains(1) {
		t.Fatalf("import of {1} into an empty slice bitmap: changed=%d Contains(1)=%v", changed, b.Contains(1))
	}
	b2 := NewBitmap(1, 5<<16)
	if _, _, err := b2.ImportRoaringBits(vr2WitnessBytes(t, NewBitmap(2<<16)), false, false, 0); err != nil {
		t.Fatal(err)
	}
	if got := b2.Slice(); len(got) != 3 || got[1] != 2<<16 {
		t.Fatalf("import of {2<<16} into {1, 5<<16} = %v", got)
	}
}

func vr2WitnessRange(lo, hi int) []uint16 {
	var out []uint16
	for v := lo; v <= hi; v++ {
		out = append(out, uint16(v))
	}
	return out
}

func vr2WitnessDecode(t *testing.T, data []byte) []uint64 {
	b := NewBitmap()
	if err := b.UnmarshalBinary(data); err != nil {
		t.Fatalf("UnmarshalBinary: %v", err)
	}
	return b.Slice()
}

// D3: readWithRuns converted start:length to start:last inside the caller's buffer.
func TestVerifWitness_D3(t *testing.T) {
	vals := append(append(vr2WitnessRange(0, 2), vr2WitnessRange(10, 12)...), vr2WitnessRange(20, 22)...)
	data := vr2OffEncode([]vr2OffCont{{Key: 0, Run: true, Vals: vals}})
	orig := vr2CopyBytes(data)
	first := vr2WitnessDecode(t, data)
	if i := vr2FirstDiff(data, orig); i != -1 {
		t.Fatalf("UnmarshalBinary of an official run container ([0-2],[10-12],[20-22]) modified the input at byte %d", i)
	}
	second := vr2WitnessDecode(t, data)
	if !vEq(first, second) || len(first) != 9 {
		t.Fatalf("decoding the same bytes twice: %v then %v", first, second)
	}
}

// D4: run cookie with >= 4 containers carries an offset header that the readers did not skip.
func TestVerifWitness_D4(t *testing.T) {
	conts := []vr2OffCont{
		{Key: 0, Run: true, Vals: vr2WitnessRange(1, 10)},
		{Key: 1, Vals: []uint16{1}},
		{Key: 2, Vals: []uint16{2}},
		{Key: 3, Vals: []uint16{3}},
	}
	data := vr2OffEncode(conts)
	want := vr2OffModel(conts)
	if got := vr2WitnessDecode(t, data); !vEq(got, want) {
		t.Fatalf("UnmarshalBinary of 4 containers under the run cookie: %s", vDiff(got, want))
	}
	b := NewBTreeBitmap()
	changed, _, err := b.ImportRoaringBits(data, false, false, 0)
	if err != nil {
		t.Fatalf("ImportRoaringBits of 4 containers under the run cookie: %v", err)
	}
	if got := b.Slice(); changed != len(want) || !vEq(got, want) {
		t.Fatalf("ImportRoaringBits of 4 containers under the run cookie: changed=%d %s", changed, vDiff(got, want))
	}
}

// DR3: official non-run container with exactly 4096 values is an array, was read as a bitset.
func TestVerifWitness_DR3(t *testing.T) {
	var vals []uint16
	for i := 0; i < 4096; i++ {
		vals = append(vals, uint16(i*3))
	}
	conts := []vr2OffCont{{Key: 0, Vals: vals}}
	data := vr2OffEncode(conts)
	want := vr2OffModel(conts)
	if got := vr2WitnessDecode(t, data); !vEq(got, want) {
		t.Fatalf("UnmarshalBinary of an official 4096-value array container: %s", vDiff(got, want))
	}
	b := NewBTreeBitmap()
	if _, _, err := b.ImportRoaringBits(data, false, false, 0); err != nil {
		t.Fatal(err)
	}
	if got := b.Slice(); !vEq(got, want) {
		t.Fatalf("ImportRoaringBits of an official 4096-value array container: %s", vDiff(got, want))
	}
}

// DR4: run count * 4 computed in uint16 (>= 16384 runs) misplaced the following containers.
func TestVerifWitness_DR4(t *testing.T) {
	var alt []uint16
	for v := 0; v < 65536; v += 2 {
		alt = append(alt, uint16(v))
	}
	conts := []vr2OffCont{{Key: 0, Run: true, Vals: alt}, {Key: 1, Vals: []uint16{7, 9}}}
	data := vr2OffEncode(conts)
	want := vr2OffModel(conts)
	if got := vr2WitnessDecode(t, data); !vEq(got, want) {
		t.Fatalf("UnmarshalBinary of a 32768-run container followed by an array: %s", vDiff(got, want))
	}
}

// DR5: run cookie with 65536 containers: count-1 = 65535 wrapped to 0 containers.
func TestVerifWitness_DR5(t *testing.T) {
	conts := make([]vr2OffCont, 65536)
	for i := range conts {
		conts[i] = vr2OffCont{Key: uint16(i), Run: i == 0, Vals: []uint16{uint16(i)}}
	}
	data := vr2OffEncode(conts)
	b := NewBitmap()
	if err := b.UnmarshalBinary(data); err != nil {
		t.Fatalf("UnmarshalBinary of 65536 containers under the run cookie: %v", err)
	}
	if got := b.Count(); got != 65536 {
		t.Fatalf("65536 containers under the run cookie decoded to %d values, want 65536", got)
	}
}

// DR6: CountRange fast path used the next container when the seeked key holds a nil container.
func TestVerifWitness_DR6(t *testing.T) {
	b := NewBitmap(0, 100<<16)
	if _, err := b.Remove(0); err != nil {
		t.Fatal(err)
	}
	if got := b.CountRange(0, 1); got != 0 {
		t.Fatalf("NewBitmap(0, 100<<16); Remove(0); CountRange(0,1) = %d, want 0", got)
	}
	if got := b.CountRange(0, 65535); got != 0 {
		t.Fatalf("CountRange(0,65535) = %d, want 0", got)
	}
}

// DR7: UnmarshalBinary reset opN but not ops.
func TestVerifWitness_DR7(t *testing.T) {
	var log bytes.Buffer
	b := NewBTreeBitmap()
	b.OpWriter = &log
	if _, err := b.Add(1); err != nil {
		t.Fatal(err)
	}
	snap := vr2WitnessBytes(t, b)
	if err := b.UnmarshalBinary(snap); err != nil {
		t.Fatal(err)
	}
	if ops, opN := b.Ops(); ops != 0 || opN != 0 {
		t.Fatalf("bitmap with one logged Add, re-read from a snapshot without a log: Ops()=(%d,%d), want (0,0)", ops, opN)
	}
	// snapshot followed by a log of two ops, decoded in place: exactly those two
	data := append(vr2CopyBytes(snap), log.Bytes()...)
	data = append(data, log.Bytes()...)
	if err := b.UnmarshalBinary(data); err != nil {
		t.Fatal(err)
	}
	if ops, opN := b.Ops(); ops != 2 || opN != 2 {
		t.Fatalf("decoding a snapshot with two logged ops in place: Ops()=(%d,%d), want (2,2)", ops, opN)
	}
}
