PROP = dict(
    level="fault_enumeration",
    technique="fault injection by crash-point enumeration (process-kill model): rapid-generated write histories run by a child "
              "process under strace; every prefix of its file-system operations is replayed into a directory and a fresh node is "
              "started on it; oracle = sequential model of the acknowledged writes",
    level_text="Generated write histories (Set/Clear with and without timestamps, int Set, Import/ImportValue/ImportRoaring with and "
               "without clear, bulk Import set/clear batches of 600-3000 bits and ImportValue batches of 300-900 columns in one shard, Store, ClearRow; set, mutex, bool, time (with and without standard view), int and keyed fields; column and row keys incl. entries larger "
               "than the 4 KiB translate buffer; low snapshot thresholds so that background snapshots interleave) are executed by a real "
               "in-process node in a child process under strace. The trace (every write/rename/truncate/unlink/create with its payload, "
               "and the position of each ACK) is replayed operation by operation with an inode-accurate replayer that is self-checked "
               "against the real final directory; after each state-changing operation a new node is started on the materialised "
               "directory. It must start; every (field, view, shard) must hold exactly the acknowledged model state or the state after "
               "the single write in flight; API reads (Row, Field.Value) must agree with the recovered fragments; every acknowledged "
               "key must resolve to its id both ways; inside writes/snapshots one more write + clean restart must keep everything, and every "
               "fragment that has a leftover .snapshotting file is emptied through the op log, snapshotted once (shorter than the leftover), "
               "written to again and must come back exactly like that after the clean restart. "
               "Exploration, not proof: held at every crash point of every generated history.",
    level_note="Process-kill model of the property text: completed syscalls persist, nothing else (power loss / missing fsync are out of "
               "scope by design; a write(2) is atomic). Trusted: strace, the 300-line replayer (self-check: full replay == real directory, "
               "else the run is inconclusive), the model in c09_model_test.go. The node is pilosa.Server+API in process (no HTTP, no "
               "gossip, nop attribute store): attribute stores (BoltDB) are not exercised. Crash points start after schema creation "
               "(the first write is one that creates a shard). Schedules of the background snapshot worker are those that happen to occur.",
    rule="one evaluation = one crash point (history, k): the directory after the first k file-system operations of the traced run. "
         "distinct = hash(history, k). non-trivial = k lies strictly inside the operations of the write in flight (some done, some to "
         "come) or a .snapshotting file exists at k. Classes: kind of the k-th operation x file class, kind/field of the write in flight, "
         "inside-multi-append (k between two op-log appends of one write to one fragment).",
    assumptions=["crash points are taken between completed syscalls (process-kill model), per the property's quantifier",
                 "histories are sequential (one client); concurrency is C29's subject",
                 "roaring imports only on unkeyed indexes (they address columns by id)",
                 "open finding DC3 excuses only the exact intermediate state of the four multi-append write shapes listed in its text, "
                 "identified by write kind, fragment and number of completed appends",
                 "fragment.MaxOpN is lowered by the child after each write (generated: 2/5/12/default) to make snapshots frequent"],
    tags=["gc"],
    units=[
        U("crash", ".", "^TestVerifC09_CrashPoints$", 8, 280, sq=8, sth=14,
          timeout={"quick": 900, "thorough": 3000}),
    ],
)
