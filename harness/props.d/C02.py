_ENV = {"GOMAXPROCS": "2", "GOGC": "400"}  # allocation-heavy checks: fewer GC threads on the shared machine

PROP = dict(
    level="exploration",
    technique="property-based testing (rapid state machine): generated mutation/read histories on one bitmap held in both container "
              "collections vs a sorted-slice reference model",
    level_text="Generated histories (about 40 steps) of Add/Remove/AddN/RemoveN/DirectAdd/DirectAddN/DirectRemoveN, ImportRoaringBits "
               "(set and clear, Pilosa and official payloads, rowSize 0/16), Optimize, re-load from own WriteTo bytes (mapped containers) and "
               "reads are applied to a slice-backed and a B-tree-backed bitmap at once, with values concentrated on 3-4 container keys so the "
               "last-container lookasides stay hot (one history in ten starts from a multi-page B-tree of > 508 containers and empties key ranges "
               "before Optimize; there point operations also address any prefilled key and sweep imports (set/clear, Pilosa and official payloads) touch every container of a key range, so Containers.Update runs on the first and last key of every B-tree page). After every step Contains on all recently touched values and their neighbours, Count, Any, Slice, iterator Seek, "
               "CountRange, Min/Max, per-container cardinalities and structure of both bitmaps are compared with the model, every mutation's "
               "reported change (bool / count / a[:changed] list / per-row deltas) with the model's delta; payload buffers are poisoned after the "
               "call and the bytes a re-loaded bitmap is mapped onto must never be written. Exploration, not proof.",
    level_note="Trusted: Go toolchain, rapid, the sorted-slice set model. Histories are <= ~40 steps over <= 4 focus keys (plus up to ~1200 prefilled "
               "single-value containers in the multi-page variant); op-log writers are not attached (that is C05); no concurrency (C29).",
    rule="rapid t.Repeat state machine; actions drawn uniformly, values from: existing elements +-1, recently touched values, focus key x "
         "{0,1,2,3,5,63,64,65,4095,4096,65534,65535}, uniform low bits. distinct = hash of focus keys + the full action history. "
         "non-trivial = some container key was touched (mutated/read), then replaced behind the lookaside (import of that key, Optimize, re-load), "
         "then touched again; or Optimize ran while an emptied container existed (delete during B-tree enumeration).",
    assumptions=["AddN/RemoveN/DirectAddN/DirectRemoveN get a private copy of the batch (they reorder the caller's slice by contract); a[:changed] must list the changed values in input order",
                 "ImportRoaringBits rowSet: absent row = delta 0; clear imports report negative deltas (fragment.importRoaring adds uint64(changes))",
                 "official payloads only address keys < 2^16 and hold at least one container",
                 "re-load = UnmarshalBinary of the bitmap's own WriteTo bytes, into a fresh bitmap or in place; the previous backing bytes may be overwritten once nothing was decoded from them any more"],
    tags=["groar", "gr2"],
    units=[
        U("reads", "./roaring", "^TestVerifC02_Machine$", 1500, 40000, steps=40, env=_ENV),
    ],
)
