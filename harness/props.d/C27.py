PROP = dict(
    level="exploration",
    technique="property-based testing (rapid): per-type value generators, encode/decode round trip, structure-aware byte mutation; exhaustive enumeration of "
              "type switches, type bytes and result kinds",
    level_text="The set of message types is read from the source of the code under test (the type switches of Serializer.Unmarshal, encodeToProto, "
               "encodeQueryResponse and Server.receiveMessage) and must equal the harness registry, so a new type cannot go unchecked. For each of the 28 types "
               "generated values (empty/nil slices and maps, extreme integers, arbitrary Unicode, nested schema/status, every QueryResponse result kind incl. nil rows, "
               "errors) must satisfy decode(encode(v)) = v up to nil-vs-empty; getMessageType/getMessage are checked to be mutually inverse over all 256 type bytes "
               "and every broadcast message, including the framed form; random bytes, mutated valid encodings, encodings of other types and well-formed field "
               "sequences are decoded into every type and every result type number 0..15 with and without payload: a panic is a failure. Exploration, not proof.",
    level_note="Trusted: Go toolchain, rapid, gogo/protobuf, the reflection-based canonical form. Generated values keep nested pointer members non-nil (every sender "
               "in the repository fills them; encode dereferences them) and use attribute values of the four stored kinds (string, int64, bool, float64). "
               "QueryRequest.Index (sent in the URL) and IndexInfo.ShardWidth (build constant) are not part of the encoding by design and are not compared. "
               "The framed round trip in package pilosa uses a JSON payload serializer because the protobuf serializer cannot be imported there.",
    rule="roundtrip: one generated value of a uniformly chosen type per case; distinct = hash of the canonical form; non-trivial = the encoding is not empty. "
         "bytes: target type x byte source (random <=24 bytes | mutated valid encoding of the target (truncate, flip, insert, huge varint, drop prefix, duplicate) | "
         "valid or mutated encoding of another type | empty | sequence of well-formed fields 1..15); non-trivial = the bytes were accepted as protobuf for the target, "
         "i.e. the hand-written decode functions ran. registry/framing/resultkinds: complete enumerations (every case non-trivial).",
    assumptions=["equality identifies nil and empty slices/maps, RowIdentifiers and *RowIdentifiers, errors with equal messages; rows are compared by columns, keys, attrs",
                 "a group member of a GroupCount carries either a row id or a non-empty row key (FieldRow JSON form does the same)",
                 "an error with the empty message is not generated (the empty string encodes 'no error')",
                 "while DP14 is open, a panic whose frames above Serializer.Unmarshal lie only in the generated code internal/*.pb.go is counted as excluded (signature of DP14); a panic in the hand-written decode functions is always a violation",
                 "while DP8 is open, IndexInfo.Options is generated as the zero value"],
    tags=["gp"],
    exhaustive=True,
    units=[
        U("registry", "./encoding/proto", "^(TestVerifC27_Registry|TestVerifC27_ResultKinds)$", 1, 1, sq=1, sth=1, rapid=False),
        U("roundtrip", "./encoding/proto", "^TestVerifC27_RoundTrip$", 30000, 900000, sq=3, sth=8),
        U("bytes", "./encoding/proto", "^TestVerifC27_Bytes$", 60000, 2400000, sq=4, sth=10),
        U("framing", ".", "^TestVerifC27_Framing$", 1, 1, sq=1, sth=1, rapid=False),
    ],
)
