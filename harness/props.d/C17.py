PROP = dict(
    level="exploration",
    technique="property-based testing (rapid): algebraic laws of the reducers; generated data x every shard arrival order on one node with a single "
              "executor worker; generated data x cluster placements with every node as coordinator; all against a set/map model",
    level_text="(a) In-package laws on generated partial results with zero values, ties and overlaps: ValCount.add/smaller/larger, Pairs.Add, "
               "RowIDs.merge(limit), mergeGroupCounts(limit), Row.Merge are folded in the given and in a permuted order and regrouped; every fold must equal "
               "the naive model (sum / extreme with total tie count / sorted union truncated by limit / set union). (b) A single node with one executor worker "
               "reduces local shard results in the order of QueryRequest.Shards (checked at function level on mapperLocal); generated data over 2-5 shards "
               "(plus an empty shard) and generated read queries (bitmap expressions incl. Not and int conditions, Count, Sum/Min/Max, MinRow/MaxRow, TopN, "
               "Rows, GroupBy, filtered and unfiltered) must give the same answer under all permutations (<= 4 shards: all; more: a sample) and equal the "
               "model. (c) Gossip clusters of 1-3 nodes x replicas 1-3, data written through a random node, every node used as coordinator: answers must "
               "equal the model and each other. Exploration, not proof.",
    level_note="Trusted: Go toolchain, rapid, the model in c17_data_test.go. TopN(n=k): which of several equal-count rows is reported is unspecified and the "
               "two-pass algorithm's candidate set is not modelled, so only 'every reported pair carries its true count, sorted, at most k, same count sequence "
               "under every order/coordinator' is checked; TopN without n is compared exactly. The bool-or and MinRow/MaxRow reducers are closures and are "
               "exercised only through (b)/(c). Cluster requests name the shards explicitly (the announcement of a new shard to peers is asynchronous). "
               "A cluster that does not reach NORMAL makes the run inconclusive (process kills itself; driver exit 2). No set-field clears, no time fields "
               "and no Shift in the generated data/queries (D14/D19/D20/D18 belong to other properties). Worktree carries tmp-fix(D19) for an endless loop in "
               "fragment.maxRow that otherwise hangs the order check.",
    rule="distinct = hash of the generated partial results (laws) / of data + queries + shard list (order) / of cluster shape + data + queries (placement). "
         "Non-trivial = laws: >= 2 partial results tie on the extreme or overlap in row ids / groups / shards; order: >= 2 shards tie on an extreme int value "
         "or a row of s spans >= 2 shards, with >= 2 arrival orders executed; placement: the shards of the data have >= 2 distinct primary owners.",
    assumptions=["partial results given to the laws are in the shape real shards produce: sorted unique row ids / groups, per-shard results already truncated "
                 "to the limit, a Sum partial with count 0 has value 0",
                 "TopN order among equal counts is unspecified (documented freedom)",
                 "QueryRequest.Shards order = local reduce order holds for WorkerPoolSize=1 (TestVerifC17_Lever)"],
    tags=["gq1"],
    units=[
        U("laws", ".", "^TestVerifC17_(Laws|Lever)", 3600, 120000, sq=2, sth=8),
        U("order", "./server", "^TestVerifC17_Order$", 60, 2400, sq=5, sth=12),
        U("cluster", "./server", "^TestVerifC17_Cluster$", 30, 1200, sq=3, sth=6, timeout={"quick": 600, "thorough": 3000}),
        U("wit", ".", "^TestVerifWitness_D17$", 0, 0, sq=1, sth=1, rapid=False),
        U("witapi", "./server", "^TestVerifWitness_DQA7$", 0, 0, sq=1, sth=1, rapid=False),
    ],
)
