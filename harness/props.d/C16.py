PROP = dict(
    level="exploration",
    technique="property-based testing (rapid): generated datasets and mutation histories x generated Rows / GroupBy / MinRow / MaxRow calls and paging loops vs a model, through API.Query on a running single-node server",
    level_text="Each run builds hundreds of small indexes (set and time fields, columns on container and shard edges of up to four shards, rows that were set and "
               "emptied again by Clear / ClearRow / Store, rows created by Store) and compares Rows with every subset of previous/limit/column/from/to, GroupBy "
               "over 1-3 Rows children with filter, child limit/column, limit, offset and previous, and MinRow/MaxRow with and without a filter with a naive model; "
               "paging loops (limit+previous, limit+offset) are run to exhaustion and must concatenate to the unpaged result. Exploration, not proof.",
    level_note="Trusted: Go toolchain, rapid, the model in gpql_model_test.go / c16_test.go. Single node; unkeyed fields only. GroupBy paging by `previous` is only "
               "generated when no child carries its own limit/column (the documented protocol is ambiguous there). For MinRow/MaxRow only the row id and count>0 are "
               "compared (the property does not define the count). Time ranges use bounds aligned to the field's smallest time unit.",
    rule="distinct = hash of schema + data + mutation program + call texts. non-trivial = at least two shards hold different row sets of the queried field, or a "
         "paging loop of >= 3 pages, or a GroupBy whose inner iterator wraps (>= 2 first-level rows with groups), or a row that was set and emptied again.",
    assumptions=["reference model = harness/pkg/server/gpql_model_test.go + c16_test.go, grounded in docs/query-language.md (Rows, Group By)",
                 "GroupBy order = lexicographic by row ids in child order; `previous` cursors are groups of the unpaged result (the documented paging protocol)",
                 "GroupBy offset (undocumented, named by the property): result = all[offset:offset+limit]",
                 "MinRow/MaxRow on a field without any row (within the filter) must report count 0; otherwise the row id must match and count must be > 0",
                 "filters containing a Shift that carries over a shard edge are not generated while finding D18 is open"],
    tags=["gpql"],
    units=[
        U("rows", "./server", "^TestVerifC16_Rows$", 160, 2400, timeout={"quick": 600, "thorough": 3000}),
        U("groupby", "./server", "^TestVerifC16_GroupBy$", 160, 2400, timeout={"quick": 600, "thorough": 3000}),
        U("minmax", "./server", "^TestVerifC16_MinMaxRow$", 120, 1800, sq=3, timeout={"quick": 600, "thorough": 3000}),
    ],
)
