PROP = dict(
    level="exploration",
    technique="enumeration + property-based testing (rapid) of the real cobra/viper command executed in-process with `server --dry-run`; "
              "round trip through the real renderer (toml.Marshal as generate-config / `pilosa config`) and the real reader (`server -c`)",
    level_text="The options are enumerated from the flag set of the `server` command (so new options are covered automatically). For every option, every subset of "
               "{config file, environment, command line} and two value variants (bools in both polarities, string slices with 0/1/2/3 elements including an explicitly empty "
               "flag), the real root command is executed and the final flag value and the bound server.Config field must equal the value of the highest-precedence source "
               "supplied, else the default; all other options must keep their defaults. Generated multi-option cases (1-6 options, independent source subsets, generated values "
               "of every option type) look for cross-talk. Round trip: the literal generate-config | server -c pipeline, and generated configurations of all option types "
               "rendered by toml.Marshal (what generate-config does) or by `pilosa config --flags`, read back by `server -c`, must give the same Config. "
               "The single-option enumeration is complete; the rest is exploration, not proof.",
    level_note="Trusted: Go toolchain, rapid, the 30-line TOML writer of the harness (precedence part only). The process environment is owned by the check (all PILOSA_* "
               "variables are removed before/after each execution); cobra command tree, cmd.Server and the viper instance are created anew per execution by cmd.NewRootCommand. "
               "Not covered: the `config`/`-c` option itself coming from PILOSA_CONFIG, options of other subcommands, semantic validation done after the dry-run point.",
    rule="precedence unit: options x 8 source subsets x 2 variants, one execution each (distinct = option/variant/subset; non-trivial = at least two sources supplied). "
         "multi unit: 1-6 distinct options, per option a random subset of sources and rapid-generated type-correct values (strings over an alphabet with spaces, quotes, "
         "backslashes, '#', '=', ',', brackets, non-ASCII; ints incl. negative; uint64 up to MaxInt64; durations in ns; floats; host-like string-slice elements); "
         "non-trivial = some option has >= 2 sources and >= 2 options supplied. roundtrip unit: every option changed, or each with probability 1/4; "
         "non-trivial = values of >= 3 option types changed.",
    assumptions=["an empty environment variable counts as unset (viper convention, AllowEmptyEnv is off): environment values are non-empty",
                 "string-slice elements are host/URI-like tokens without commas, quotes or whitespace (the flag and environment syntax is comma separated)",
                 "string values contain no control characters; uint64 values <= MaxInt64 (TOML integers are int64); durations >= 0 and written as Go duration strings",
                 "while finding DM1 is open, round-trip floats are limited to 6 significant digits and |v| < 1e6 (go-toml renders floats with float32 precision)"],
    tags=[],
    units=[
        U("precedence", "./cmd", "^TestVerifC31_(PrecedenceExhaustive|RoundTripDefault)$", 0, 0, sq=1, sth=1, rapid=False),
        U("multi", "./cmd", "^TestVerifC31_PrecedenceMulti$", 1500, 32000, sq=3, sth=8),
        U("roundtrip", "./cmd", "^TestVerifC31_RoundTrip$", 900, 16000, sq=3, sth=8),
    ],
)
