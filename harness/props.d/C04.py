_ENV = {"GOMAXPROCS": "2", "GOGC": "400"}  # allocation-heavy checks: fewer GC threads on the shared machine

PROP = dict(
    level="exploration",
    technique="property-based testing (rapid): generated sets x encodings; round trip, independent official-format encoder as oracle, "
              "differential import path vs storage path, set-model oracle for import = decode-then-merge",
    level_text="Generated sets (containers built directly as array/bitmap/run, at the 4096-value and 2048-run thresholds, full, "
               "single-value, >2 runs, 32768 runs) are written with both Pilosa encoders (WriteTo, writeToUnoptimized) and with an "
               "independent encoder of the official RoaringFormatSpec (cookies 12346/12347, is-run bitmap, offset header iff no runs "
               "or >=4 containers, up to 2^16 containers) that is first calibrated byte-for-byte against the repository's fixtures. "
               "Every stream is decoded twice through UnmarshalBinary (slice and B-tree bitmaps, fresh and used) and through the "
               "import iterator; results must equal the model set, Flags must survive, the input bytes must be untouched. "
               "ImportRoaringBits(set|clear) into generated targets must equal union/difference with exact changed counts and per-row "
               "deltas. Exploration, not proof: held on everything generated.",
    level_note="Trusted: Go toolchain, rapid, the sorted-slice set model, the ~150-line official-format codec in "
               "harness/pkg/roaring/gr2_official_test.go (calibrated on every run by TestVerifC04_Calibration and self-checked per case). "
               "Not covered: arbitrary/mutated bytes (that is C06), official streams without containers (the repository's own test "
               "TestUnmarshalRoaringWithErrors documents their rejection), the byte-level native fuzz target planned in DESIGN.md "
               "(malformed inputs hit the C06 defects owned by another group).",
    rule="rapid-generated bitmaps over 1-7 container keys (pool incl. 0, adjacent keys, 65535, 2^16, maxContainerKey for the Pilosa format; "
         "keys < 2^16 for the official format) x container shape x encoding x target kind; official streams additionally with 40000/65535/65536 "
         "containers. distinct = hash of the generated specs, format, flags. non-trivial = the payload holds >= 2 container types, or a run "
         "container with > 2 runs (<= 2 runs are copied into the container's inline storage, which hides in-place rewriting), or >= 4 containers "
         "under the run cookie (offset header present); for imports additionally at least one bit changes.",
    assumptions=["official-format inputs hold at least one container (an empty stream is rejected by design: roaring_internal_test.go TestUnmarshalRoaringWithErrors)",
                 "official-format inputs are produced by the harness's own encoder written from RoaringFormatSpec; non-run containers are arrays iff cardinality <= 4096",
                 "ImportRoaringBits rowSet: a row absent from the map counts as delta 0 (fragment.importRoaring skips zero entries); clear imports report negative deltas",
                 "decoding targets are fresh bitmaps or used bitmaps without an op writer"],
    tags=["groar", "gr2"],
    units=[
        U("roundtrip", "./roaring", "^TestVerifC04_Roundtrip$", 2000, 30000, env=_ENV),
        U("official", "./roaring", "^TestVerifC04_(Calibration|Official)$", 2000, 30000, env=_ENV),
        U("import", "./roaring", "^TestVerifC04_Import$", 2000, 24000, env=_ENV),
        U("max", "./roaring", "^TestVerifC04_OfficialMax$", 8, 60, sq=2, sth=4, env=_ENV),
    ],
)
