PROP = dict(
    level="exploration",
    technique="property-based testing (rapid): generated histories on two attribute stores vs a map model, with every handed-out/handed-in map trashed by the harness; "
              "block/checksum laws checked differentially between the two stores; API layer vs the same model",
    level_text="Generated histories of SetAttrs/SetBulkAttrs (string/int64/int/uint/uint64/bool/float64 values, nil deletes, empty updates), reads of present and "
               "never-written ids, Close+Open, on ids straddling the block edges (98..101, 199..201, 299/300) run against two real boltdb attribute stores. "
               "After every call the harness overwrites, deletes and adds (poison) keys in every map it received from or gave to the store; every later read must still "
               "equal a plain map model with Go types preserved. Blocks()/BlockData() are compared with the model, and between the two stores "
               "checksum equality must coincide with BlockData equality. attrBlocks.Diff is compared with a set model; SetRowAttrs/SetColumnAttrs/Row()/Options(columnAttrs) "
               "are driven through the API of a real single-node server with restart. Exploration, not proof: held on everything generated.",
    level_note="Trusted: Go toolchain, rapid, bbolt, the map model (~40 lines). Not covered: floats NaN/-0 (equality undefined / normalised by protobuf), uint64 above MaxInt64 "
               "(stored as int64 by design), 64-bit checksum collisions, multi-node forwarding of attribute calls (C26), attribute key 'field' on SetColumnAttrs (reserved by the executor).",
    rule="store unit: 1-24 generated operations over 16 ids and 7 keys on two stores (most operations applied to both so that equal blocks are common; 'swap' and "
         "'viaOther' operations build equal multisets / equal contents through different calls); distinct = hash of the operation trace; non-trivial = a nil removed an existing key, "
         "or a reopen happened with data present, or both sides of a block edge hold attributes, or an absent id was read after an earlier absent read had been trashed, "
         "or the final comparison saw both an equal and a differing block. diff unit: non-trivial = both lists non-empty with a common block id. "
         "api unit: non-trivial = a delete of an existing attribute or a restart with data or a bulk (multi SetRowAttrs) request.",
    assumptions=["ints/uints are returned as int64 (attr_test.go documents this coercion); uint64 values <= MaxInt64",
                 "floats are finite and not -0; equality of attribute maps is reflect.DeepEqual",
                 "an id whose attributes were all deleted (or that only received an empty/deleting update) may or may not be listed by BlockData with empty attrs; "
                 "block equality between stores is equality of BlockData (DESIGN C25)",
                 "attrBlocks.Diff is called with both lists sorted by id without duplicates (documented precondition)",
                 "API unit: attribute keys are ASCII identifiers other than 'field'; string values are printable ASCII without quotes/backslashes (PQL text issues belong to C26)"],
    tags=[],
    units=[
        U("store", "./boltdb", "^TestVerifC25_Store$", 1000, 24000, sq=4, sth=8),
        U("diff", ".", "^TestVerifC25_Diff$", 2000, 50000, sq=1, sth=1),
        U("api", "./server", "^TestVerifC25_API$", 240, 1800, sq=4, sth=6),
    ],
)
