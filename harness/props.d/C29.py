PROP = dict(
    level="exploration",
    technique="generated concurrent workloads under the race detector + porcupine linearizability checking against a sequential "
              "bit-set model (fragment level in-package, and PQL/import requests through an in-process node's API)",
    level_text="rapid generates workloads of 2-8 client goroutines x 10-40 operations with generated pre-delays (Gosched counts, "
               "40-200 us sleeps), GOMAXPROCS in {1,2,4,16}, snapshot thresholds in {2,5,20,default} and the cache type of each fragment / field drawn from "
               "{ranked, lru, none} (FlushCache at fragment level and the holder-wide cache flush of monitorCacheFlush at API level are in the mix). Fragment level: setBit, "
               "clearBit, bulkImport, importRoaring (set/clear), setRow, clearRow, row, rows(column filter), top, top(ids), Blocks, "
               "Snapshot, FlushCache, minRow, maxRow on 1-2 fragments (set, mutex or bool: for the latter two the model is column -> at most "
               "one row, last linearized write wins, and no column may end with two rows) sharing a 2-worker snapshot queue, universe 2 rows x 4 columns. "
               "API level: Set/Clear/Row/Rows/Store/ClearRow/Count/TopN/Sum, Import, ImportRoaring, RecalculateCaches on a set field, "
               "a time field (views created on the fly), a mutex, a bool and an int field over 2 shards; 4 fresh keyed indexes per workload on which all "
               "clients at once Set their own first-ever column key and row key (distinct keys must get distinct ids, both translate directions and "
               "Row(kf=key) must agree); every workload opens with a burst in which all clients, "
               "released by a spin barrier, send the first write to the same fragment-less shard of a fresh field (2-6 shards in turn) or to a time "
               "view nobody used before, and later requests keep touching further fresh shards; any error returned by a valid request fails the run. The binaries are built with -race: any data "
               "race, panic or failed request fails the run. Each call is stamped with an atomic counter at invocation and response; "
               "the history of every linearizable object (fragment; at API level each (field, shard), multi-shard requests being "
               "projected per shard) is checked with porcupine: writes must return their changed flag, reads the exact content; reads "
               "issued after all clients finished pin the final state; at fragment level the fragment is closed and reopened and must "
               "hold that state. Exploration of schedules by perturbation: a clean run is weak evidence, a race report or a "
               "non-linearizable history is strong evidence.",
    level_note="Schedules cannot be enumerated; failures are schedule dependent and do not shrink (the failure message carries the full "
               "stamped history). At fragment level top(ids) (one count read per row), minRow/maxRow and the Blocks checksum are "
               "constrained too; results of TopN/top(n) (the ranked cache is refreshed every 10 s by design), Count, Sum and the "
               "changed flag of multi-shard or multi-view requests are exercised but not constrained. A workload that does not finish is reported as a deadlock only when provably permanent (twice, 2 s apart: no call completed, every "
               "goroutine inside pilosa code parked at the same place on a channel/select/condition variable, at least one in sync.Cond.Wait); "
               "otherwise the run ends inconclusive after 180/300 s with a goroutine dump. "
               "Single node, in-process API (no HTTP layer).",
    rule="one evaluation = one generated workload (clients x operations x delays x GOMAXPROCS x snapshot threshold); distinct = hash of the "
         "whole plan. non-trivial = on some object two operations of different clients overlap in time and at least one is a write.",
    assumptions=["linearizable objects are single fragments / (field, shard) pairs: pilosa maps multi-shard requests shard by shard",
                 "Store() sources are rows of a field no client writes (Store reads the source and writes the target in two lock acquisitions)",
                 "rows() is used with a column filter (without one it also reports rows whose containers were emptied: C16's subject)",
                 "while D28 is open the int field's bit depth is grown to the pool's maximum before the clients start; while DC5 is open the "
                 "results of Row(v == x) are not constrained (Field.Value reads are); while DC6 is open the counts of top(ids) on mutex/bool "
                 "fragments are not constrained"],
    tags=["gc"],
    units=[
        U("frag", ".", "^TestVerifC29_Fragment$", 160, 6000, sq=4, sth=14, race=True,
          timeout={"quick": 900, "thorough": 3000}),
        U("api", ".", "^TestVerifC29_API$", 100, 3000, sq=4, sth=14, race=True,
          timeout={"quick": 900, "thorough": 3000}),
    ],
)
