PROP = dict(
    level="exploration",
    technique="property-based testing (rapid): generated Set/Clear/Import histories on mutex and bool fields vs a column->row map model, at fragment level and through the executor/API",
    level_text="Histories of sets, clears, row clears and imports whose batches repeat a column with conflicting rows (1-6 entries over 1-3 columns, and 13-60 entries for one shard over 2-5 columns with non-adjacent repeats, against columns "
               "that already hold the first, a middle, the last or none of the batch's rows), clear-imports, snapshots and Close+Open (fragment level) and clean server restarts at generated points followed by further writes to columns that already hold a value (API level) run on mutex and bool fragments "
               "and on mutex/bool fields through PQL and API.Import over several shards. After every step each column holds at most one row, it is the row of the last "
               "write in request order, Row(f=r) is the inverse map, mutexVector.Get never reports multiple values, Set/Clear report changed correctly, and bool imports "
               "with a row above 1 are rejected without effect. Exploration, not proof.",
    level_note="Trusted: Go toolchain, rapid, the map model. Keyed variants are not generated. Import requests are sent per shard, in request order.",
    rule="fragment unit: mutex|bool fragment (any cache), 1-20 (thorough 30) operations; API unit: mutex (cache ranked|lru|none) or bool field, 7 columns over 3 shards, "
         "1-14 (thorough 22) steps; distinct = hash of configuration and history; non-trivial = an import batch repeats a column with different rows and that column "
         "already holds one of those rows.",
    assumptions=["last write wins in request order within a batch (statement of C13)", "bool rows are 0/1; larger rows must be rejected by Field.Import"],
    tags=["gfrag", "gfapi"],
    units=[
        U("fragmutex", ".", "^TestVerifC13_FragMutex$", 1000, 15000, sq=6, sth=14, timeout={"quick": 900, "thorough": 2400}),
        U("api", "./server", "^TestVerifC13_API$", 240, 2000, sq=4, sth=10, timeout={"quick": 900, "thorough": 2400}),
    ],
)
