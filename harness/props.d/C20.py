PROP = dict(
    level="exploration",
    exhaustive=True,
    technique="enumerative in-package differential test against an independent ownership model (fnv partition, published jump hash, id-sorted ring) + rapid-generated ids",
    level_text="Exhaustive within the stated bounds, exploration beyond. For every subset (up to 5 nodes quick / 8 thorough) of a 9-id alphabet, every join order (all permutations up to 6 nodes, a fixed 1/97 sample "
               "plus identity and reversal above), replica counts 0..6 (0..9 thorough) and all 256 partitions, cluster objects built through addNodeBasicSorted, "
               "addNode and a non-coordinator's mergeClusterStatus, with different self nodes and URIs ordered unlike the ids, must yield exactly the owner list of the model: "
               "min(max(r,1),n) distinct members, the ring successors of sortedIDs[jump(partition,n)]. shardNodes/ShardNodes/ownsShard/containsShards/"
               "executor.shardsByNode/api.validateShardOwnership are compared with membership in that list on (index, shard) pairs that cover every partition for 3 index names. "
               "Membership history: followers built by successive status messages and by one status message then receive, for every non-empty set of members other than themselves and the coordinator, ONE ClusterStatus that drops the whole set "
               "(adjacent ids, first, last, all but two) and afterwards the full list again; after each message the follower must list exactly the announced members and compute the model's owners. "
               "A rapid unit repeats all of this with generated ids.",
    level_note="Exhaustive only within the stated bounds. Trusted: my 40-line model (fnv64a partition, jump hash transcribed from the paper, ring order documented in docs/faq.md). "
               "Static host lists (cluster disabled) are excluded as in the property text. holderSyncer/holderCleaner use ownsShard/containsShards, which are the functions compared; "
               "their callers are exercised by C11/C21.",
    rule="case = (join order, self node, replicas) checked over all 256 partitions; distinct = hash of that triple; non-trivial = join order differs from id order (n>=2), "
         "or replicas = 0, or replicas > nodes (clamp).",
    assumptions=["replicas in 0..9 (negative values are outside the configuration domain)",
                 "node ids are distinct non-empty strings; ordering of ids is Go byte order (the order sort.Sort(byID) uses and all nodes share)"],
    tags=["gx"],
    units=[
        U("enum", ".", "^TestVerifC20_Enum$", 0, 0, sq=6, sth=14, rapid=False, timeout={"quick": 300, "thorough": 1500}),
        U("random", ".", "^TestVerifC20_Random$", 400, 20000, sq=2, sth=2),
    ],
)
