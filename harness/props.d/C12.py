PROP = dict(
    level="exploration",
    technique="property-based testing (rapid): generated write histories with small ranked/LRU caches vs a map model, at fragment level "
              "(fragment.top) and through PQL TopN over several shards",
    level_text="Write histories through every path (setBit, clearBit, setRow, clearRow, bulk import set/clear, mutex import, roaring import set/clear; at API "
               "level Set, Clear, Import, ImportRoaring, ClearRow, Store) run on fields with ranked and LRU caches of size 1..9 and 50000, so rows are evicted, "
               "below the threshold or never admitted, with snapshots, cache flush/reload and recalculation interleaved. For every explicitly requested id "
               "(with and without a filter row and a threshold) the reported count must equal the model's, empty rows and unrequested rows must be absent. "
               "When every row ever written to a shard fits its cache and the cache was just recalculated, TopN(n) must return min(n, #non-empty rows) rows with "
               "exact counts, the largest ones, in non-increasing order (order only asserted for ranked caches). Exploration, not proof.",
    level_note="Trusted: Go toolchain, rapid, the map models. 'Rows fit the cache' is taken conservatively: the number of distinct rows ever named by a write "
               "on the shard (including clears) is at most the cache size; or (fragment unit only) a recalculation found the cache holding at most CacheSize rows "
               "(cache.Len()), the rows cached then plus the rows named since still fit, and every non-empty row was cached then (cache.IDs()) or changed since. Over several shards the selection of the n largest rows is only asserted when n covers "
               "all rows or the data lives in one shard (candidates are the per-shard top n by design); counts and result size are asserted always under (b). "
               "Attribute filters and tanimoto thresholds are not generated.",
    rule="fragment unit: set/mutex fragment, cache ranked|lru size 1|2|3|5|9|50000, histories of 1-25 (thorough 40) operations with top() queries after generated "
         "steps; API unit: set field with cache ranked|lru size 1|2|3|5|8|50000, 1-3 shards, 8 rows, histories of 1-18 (thorough 30) writes; distinct = hash of "
         "configuration and history; non-trivial = a requested non-empty row was not in the count cache at query time (fragment unit: checked in-package; API unit: "
         "more rows written to a shard than its cache holds), or a requested row had been emptied by a write; topfilter unit: 3-8 rows over a 10-column pool, every n in 1..rows x 1-3 generated "
         "filter rows on a recalculated ranked cache, non-trivial = in rank order a row below the current minimum is followed by one above it after the heap is full.",
    assumptions=["reference model = maps (harness/pkg/_root/gfrag_machine_test.go, harness/pkg/server/c12_api_test.go)",
                 "TopN(n) is only judged after RecalculateCache(s) on shards where all rows ever written fit the cache (statement of C12)",
                 "LRU: no ordering asserted (docs: LRU order is recency)",
                 "threshold is only generated at fragment level (it applies per shard)"],
    tags=["gfrag", "gfapi"],
    units=[
        U("fragtop", ".", "^TestVerifC12_FragTop$", 1000, 15000, sq=6, sth=14, timeout={"quick": 900, "thorough": 2400}),
        U("topfilter", ".", "^TestVerifC12_TopNFilterDense$", 800, 20000, sq=4, sth=10, timeout={"quick": 900, "thorough": 2400}),
        U("api", "./server", "^TestVerifC12_API$", 240, 2000, sq=4, sth=10, timeout={"quick": 900, "thorough": 2400}),
    ],
)
