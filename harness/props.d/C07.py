PROP = dict(
    level="exploration",
    technique="property-based testing (rapid): generated write/read/snapshot histories on one real fragment per field type vs a map model",
    level_text="A generated history of writes through every fragment write path (setBit, clearBit, setRow, clearRow, bulkImport set/clear, "
               "mutex/bool import, setValue, importValue small and large path, importRoaring set/clear in both encodings) is applied to a real "
               "file-backed fragment opened as the holder opens it, interleaved with foreground snapshots, queued snapshots run at generated points, "
               "cache flushes and Close+Open; after generated subsets of steps every read (bit, row twice, row lists with filters, forEachBit, value, "
               "range/sum/min/max, min/max row) must equal a map model, and every write's changed flag must equal the model's. "
               "Exploration, not proof: held on every history generated.",
    level_note="Trusted: Go toolchain, rapid, the map model in harness/pkg/_root/gfrag_machine_test.go. Universe is 9 rows x 14 columns in 3 containers "
               "per row (11 of them in one container, so containers outgrow the 5 values roaring keeps inline and become mmap-backed after a reopen), one shard per case; writes that wait for the snapshot they enqueue (large importValue, setRow, clearRow) get it served by the harness while they wait; otherwise the queued snapshot runs only at operation boundaries (operations hold the fragment lock, so these are the "
               "schedules the real worker can produce, except inside multi-lock reads such as sum).",
    rule="rapid-generated histories of 1-30 (thorough 45) operations on a set/mutex/bool/int fragment with cache ranked|lru|none, cache size 2|3|50000, "
         "MaxOpN 2|5|12|40|10000, synchronous or queued snapshots, shard 0|1|5, incl. the compound operation client-retry (everything stored is imported once more - for int fragments through the large path when MaxOpN allows - then 1-3 small writes, then Close+Open and a full read-back); distinct = hash of configuration and operation history; "
         "non-trivial = some row was read, then written through a different write path than its previous write, then read again. Unit fieldint: SetValue/importValue(set|clear) histories of 1-12 steps on an in-package int Field with generated (min,max), 7 columns over two shards, reads Value/Sum/Row(f==v) after every step; non-trivial = an import overwrites a stored value with one that needs fewer bits. Unit api: 1-14 (thorough 24) writes through PQL Set/Clear/ClearRow, API.Import, API.ImportRoaring, API.ImportValue on a set field and an int field over 3 shards of an in-process server, incl. ImportValue requests of 2600 values (set, and clear of the stored values) that reach the bulk path, reads Row/Count/Rows/Rows(column)/ExportCSV/Row(v==x)/Row(v<x)/Row(v>x)/Row(v!=null)/Sum; non-trivial = a row (or the int field) was verified, then written through a different path than its previous write.",
    assumptions=["reference model = maps in harness/pkg/_root/gfrag_machine_test.go",
                 "callers' preconditions kept: setRow only on set fragments, roaring import only on set fragments, bool rows 0/1, columns inside the shard, "
                 "int writes use the field's monotone bit depth and values that fit it, range predicates fit the bit depth, ordered comparisons/min/max only with depth>=1, clear-imports pass the stored value (3 of 4) or any value",
                 "setRow is documented to always report changed=true",
                 "int fragments are compared at the value level (value, exists/not-null row, ==, !=, <, <=, >, >= against stored values, their neighbours, 0 and the extremes, sum, min, max), not at the raw bit level"],
    tags=["gfrag", "gfapi"],
    units=[
        U("fragset", ".", "^TestVerifC07_FragSet$", 900, 14000, sq=5, sth=14, timeout={"quick": 900, "thorough": 2400}),
        U("fragmutex", ".", "^TestVerifC07_FragMutexBool$", 600, 8000, sq=3, sth=14, timeout={"quick": 900, "thorough": 2400}),
        U("fragbsi", ".", "^TestVerifC07_FragBSI$", 600, 8000, sq=3, sth=14, timeout={"quick": 900, "thorough": 2400}),
        U("fieldint", ".", "^TestVerifC07_FieldInt$", 400, 5000, sq=2, sth=8, timeout={"quick": 900, "thorough": 2400}),
        U("api", "./server", "^TestVerifC07_API$", 160, 1500, sq=3, sth=10, timeout={"quick": 900, "thorough": 2400}),
    ],
)
