PROP = dict(
    level="exploration",
    technique="property-based testing (rapid): generated write histories on two real fragments with interleaved checksum reads; "
              "differential against a freshly loaded fragment and between the two replicas",
    level_text="The C07 fragment state machine (every write path, foreground and queued snapshots, Close+Open) runs on two fragments of the same "
               "field type; each generated operation is applied to one or to both, and Blocks()/Checksum()/blockData() are called at generated points. "
               "Every Blocks() answer must equal the Blocks() of a brand-new fragment loaded with exactly the bits stored at that moment, must not change "
               "after InvalidateChecksums(), must list exactly the blocks that hold data, and the two replicas must report equal checksums for a block "
               "exactly when they hold equal bits there. Exploration, not proof: held on every history generated.",
    level_note="Trusted: Go toolchain, rapid, xxhash determinism; 64-bit checksum collisions are ignored. Stored bits are read straight from the "
               "storage bitmap (and, for set/mutex/bool fragments, also compared with the map model). Rows sit around the hash-block edges 99/100/101/199/200.",
    rule="rapid-generated pairs of fragment configurations (set/mutex/bool/int; cache ranked|lru|none; MaxOpN 2..10000; queued or synchronous snapshots) and "
         "histories of 1-25 (thorough 40) operations each sent to A, B or both, with checksum checks after generated steps and at the end; "
         "distinct = hash of both configurations and both histories; non-trivial = a block's checksum had been computed (cached), then a write path other "
         "than setBit/clearBit wrote to a row of that block, then checksums were read again.",
    assumptions=["same preconditions as C07 for the write paths", "hash collisions (2^-64) ignored",
                 "the fresh-fragment oracle loads the stored bits with bulkImport into a new cache-less fragment"],
    tags=["gfrag"],
    units=[
        U("blocks", ".", "^TestVerifC10_Blocks$", 1000, 12000, sq=6, sth=14, timeout={"quick": 900, "thorough": 2400}),
    ],
)
