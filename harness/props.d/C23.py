PROP = dict(
    level="exploration",
    exhaustive=True,
    technique="enumeration by reflection (every exported *pilosa.API method x 4 cluster states; every mux route x 4 states) with generated "
              "argument variations (rapid) against the state-gate oracle of the property statement",
    level_text="Every exported method of *pilosa.API (listed by reflection at run time) and every route of the HTTP router (listed with mux.Walk) is "
               "called in each of STARTING, NORMAL, DEGRADED and RESIZING on an in-process server whose cluster state is forced. Query, import, export, "
               "schema-change and anti-entropy entry points must return the method-not-allowed error class (HTTP: an error status carrying the refusal) and "
               "leave schema and a probe battery of the stored data unchanged in STARTING/RESIZING, and must not be refused in NORMAL/DEGRADED; cluster "
               "messages, coordinator changes, shard data transfer and resize abort must be served in RESIZING. The pair space is enumerated completely, "
               "and so is every combination of the request flags and functional options of a method: the exported bool fields of ImportOptions, QueryRequest "
               "and ImportRoaringRequest (listed by reflection, so a new option is enumerated too), explicit shard lists, the remote parameters; over HTTP "
               "every optional query-string argument in the handler's validation table (read by reflection) on and off, JSON and protobuf query bodies. "
               "Other argument values are sampled.",
    level_note="Trusted: Go reflection (cluster.SetState is reached through the unexported field API.cluster), the 40-entry classification table in "
               "c23_gate_test.go / c23_http_test.go (a method or route missing from it is reported as 'unclassified' in the evidence and only fails the "
               "check if it is seen to change data or schema in STARTING/RESIZING). Single node; arguments are valid requests against a fixed fixture. "
               "The HTTP status code of a refusal is recorded, not asserted (the handler answers 500/400/404, nothing documents 405).",
    rule="case = (state, method or route, flag/option combination, argument variant). distinct = hash of state + rendered call. non-trivial = a gated (or unclassified) entry point "
         "called in STARTING/RESIZING with arguments that would change the fixture's data or schema if the gate were missing (schema + probe battery "
         "compared before/after), or a resizing-only/always entry point called in RESIZING.",
    assumptions=["classification of the existing entry points follows the property statement: query/import/export/schema change/anti-entropy = gated; "
                 "FragmentData, ResizeAbort = served in RESIZING; ClusterMessage, SetCoordinator = served in RESIZING; status reads are not covered",
                 "'refused' at the HTTP layer = status >= 400 and the body carries the API's refusal text; the numeric status is recorded only",
                 "a panic after the gate admitted a call (DeleteAvailableShard, D27) counts as admitted and is reported in the class histogram"],
    tags=["gs"],
    units=[
        U("pairs", "./server", "^TestVerifC23_Pairs$", 0, 0, sq=1, sth=1, rapid=False, timeout={"quick": 300, "thorough": 900}),
        U("http", "./server", "^TestVerifC23_HTTP$", 0, 0, sq=1, sth=1, rapid=False, timeout={"quick": 300, "thorough": 900}),
        U("args", "./server", "^TestVerifC23_Args$", 240, 3000, sq=3, sth=10, timeout={"quick": 300, "thorough": 1200}),
    ],
)
