PROP = dict(
    level="exploration",
    technique="rapid stateful test over the real coordinator `cluster` (real Holder with data, listenForJoins running) with a recording broadcaster; the test owns the delivery schedule (every message handler call is an explicit step followed by a goroutine-dump quiescence wait, plus one schedule point inside handleNodeAction reached through the cluster's logger) and compares with a reference state machine",
    level_text="Histories of up to 12 events over clusters of 1-3 initial members (replicas 1-2): node joins (NodeJoin event on the coordinator), nodeLeave, ResizeInstructionComplete for the pending instruction of the running job, "
               "duplicates, a node that is not part of the job, a finished job (successful and failed), an unknown job id (with and without Error), failed completions, API.ResizeAbort, and a 'race window' step in which the coordinator is parked "
               "after it received the job result and before it completes the job while a duplicate / failed completion / abort / foreign completion is delivered. Every step runs in its own goroutine; afterwards the test waits until every goroutine "
               "that executes cluster code is blocked in two consecutive goroutine dumps. After every step: every handler has returned and none panicked; cluster.mu and every resizeJob.mu can be read-locked; at most one job is RUNNING and none is left "
               "running or registered as currentJob once the model says it ended; jobs are only created for accepted joins/leaves, one at a time; the member list equals the model's (it changes exactly when every node that was sent an instruction has reported success; "
               "for an abort inside the race window either order is accepted); the state is RESIZING while a job runs and NORMAL when no job runs and none waits; accepted requests do not wait while no job runs. At the end all outstanding completions are delivered and the same checks run.",
    level_note="Not model checking: generated interleavings at handler granularity plus one intra-handler schedule point; no exhaustive-interleaving claim. "
               "'Never waits forever' is decided only at quiescence and only for: (1) a handler blocked in the send on resizeJob.result (its single receiver, handleNodeAction, receives once per job and is itself blocked or gone), "
               "(2) cluster.mu / resizeJob.mu not read-lockable while every goroutine of the cluster is blocked, (3) accepted joins/leaves or a RESIZING state that nothing but a further external message could move. "
               "No wall-clock threshold decides a violation: the only timer is the 60 s budget of the quiescence wait, which ends the process as inconclusive (exit 2). "
               "Out of reach / left out: waits that depend on real network timing; more than 3 queued joins (with 11 joins queued behind a running job nodeJoin blocks on the full joiningLeavingNodes channel while holding cluster.mu - seen by reading, outside the generated domain); "
               "failures of the broadcaster while instructions are distributed (by reading: handleNodeAction then returns errors.Wrap(nil) and leaves currentJob RUNNING - outside the event alphabet of the property); "
               "the state reset to NORMAL when a job is refused because one is running is unreachable with one listener goroutine inside this alphabet. Only the coordinator side is executed; followers (followResizeInstruction) are represented by the completion messages.",
    rule="case = (initial members, replicas, event history). distinct = hash of it. non-trivial = at least one resize job ran and the history contains a duplicate, late or failed completion, an abort, or a race-window step.",
    assumptions=["a failed completion aborts the job (comment in markResizeInstructionComplete); an abort returns the cluster to NORMAL (docs/administration.md 'Aborting a Resize Job')",
                 "joining ids are fresh; at most 3 joins/leaves wait behind the running job; the coordinator is never asked to leave",
                 "every node answers an instruction at least once before the history ends (drain phase), as followResizeInstruction does"],
    tags=["gx"],
    units=[
        U("resize", ".", "^TestVerifC22_Resize$", 400, 10000, sq=4, sth=14, timeout={"quick": 600, "thorough": 3000}),
    ],
)
