PROP = dict(
    level="exploration",
    technique="property-based testing (rapid): generated schema+write histories with restarts on an in-process server vs a map reference model, "
              "round trip across Reopen()",
    level_text="Generated histories create and delete indexes (keys x existence tracking) and fields of every type and option set, write through "
               "Set/Clear/ClearRow/Store/Import (set and clear, ids and keys, timestamps)/ImportValue/ImportRoaring (standard and time views)/"
               "SetRowAttrs/SetColumnAttrs, and close+reopen the data directory at generated points. Before and after every restart a probe battery "
               "derived from the model (every row, single-unit time ranges of every time view, Rows, Count, Not, Sum/Min/Max, ==, != and != null "
               "predicates of every stored int value, TopN(ids), row/column attributes, CSV export, key->id translation, AvailableShardsByIndex) must "
               "answer identically, Schema() with options must be identical, and the answers must equal the reference model. Exploration: held on every "
               "generated history.",
    level_note="Trusted: Go toolchain, rapid, the ~150-line map model in c08_restart_test.go. Single node, <= 2 indexes x <= 5 fields, <= 40 steps, columns in "
               "4 shards, 7 timestamps. While open finding DS6 (Store into a keyed field panics) is active, Store destinations are unkeyed fields; nothing else is steered around.",
    rule="rapid-generated histories of 4-40 operations drawn from {createField, deleteField, recreate field/index, Set, Clear, ClearRow, Store, Import, "
         "Import(clear), ImportValue, ImportRoaring, SetRowAttrs, SetColumnAttrs, delete-every-attribute-of-an-id, bulk ImportValue (>= MaxOpN/(bitDepth+1) values: the fragment's snapshotting path) sent twice + 1-3 small writes + Reopen, the same with an Import of > MaxOpN bits into a set field, a snapshot-triggering write (Store / ClearRow / > MaxOpN-bit Import on a field with a TopN cache) immediately followed by Reopen, remote available shards announced to a field (CreateShardMessage through API.ClusterMessage) and removed again (API.DeleteAvailableShard, often right before a Reopen), Reopen}; every history ends with a Reopen. distinct = hash of the executed "
         "history (index names normalised). non-trivial = at some restart the data directory holds an int field whose bit depth has not grown (no value or "
         "only zeros), or a time field with views of >= 2 granularities, or keyed rows/columns with data, or a row/column whose attributes were all deleted with null since the last restart, or a bulk import that was retried unchanged and followed by small writes, or a field/index that was deleted and recreated "
         "under the same name.",
    assumptions=["reference model: maps row->columns per view, column->value, attribute maps (c08_restart_test.go)",
                 "time-range probes use exactly one view interval (year/month/day/hour present in the quantum), both ends explicit",
                 "AvailableShardsByIndex and each field's AvailableShards are compared before/after exactly; against the model: superset of shards holding data, subset of shards ever written or announced as remote, and the remote shards of a field are exactly the model's until a Store() has run on an index with remote shards (it creates local fragments there)",
                 "TopN is probed with explicit ids (exact counts) and, after RecalculateCaches, from the caches with n > number of rows (plain and with a filter row) on set/mutex fields whose ranked/LRU cache holds every row the generator writes; compared as a sorted set of (row, count) pairs"],
    tags=["gs"],
    units=[
        U("restart", "./server", "^TestVerifC08_Restart$", 96, 2400, sq=4, sth=12, timeout={"quick": 600, "thorough": 3000}),
    ],
)
