PROP = dict(
    level="exploration",
    technique="property-based testing (rapid): generated histories / concurrent batches / replication prefixes on real TranslateFile instances vs a first-sight map model",
    level_text="Generated histories of translation batches for 2 indexes x 2 fields (6 key namespaces) run against a real TranslateFile with a small map size: "
               "keys come from a pool of 520 generic keys (bulk batches of 225-520 keys force the 256->512->1024 robin-hood growths, also on top of existing entries), "
               "precomputed families of keys sharing xxhash&1023 (buckets 1023, 0, 17: probe chains that wrap around the table end) or only xxhash&255, 1-byte keys, "
               "5 KiB and 9 KiB keys (entries larger than the 4 KiB write buffer), keys of byte length 127/128/129, 255/256/257, 383/384/385, 4095/4096/4097, 16383/16384/16385 and generated lengths "
               "(uvarint width boundaries of the length prefix, multiples of 128), fresh keys sized so that the whole log entry has a body of exactly 127/128/16383/16384 bytes or a total of "
               "4095-4097 / 8191-8193 bytes, occasionally 16500 keys in one namespace (three-byte id varints), Unicode (precomposed vs decomposed forms are different keys), prefixes, the empty key, "
               "with repeats inside and across batches; reverse lookups of allocated and never-allocated ids; Close+Open at generated points and always at the end. "
               "Every returned id must be positive, equal to the id first returned for that key, and different from the id of every other key of the namespace; reverse "
               "translation returns the key. Concurrent unit: 4 goroutines issue overlapping batches plus a reader; all callers must agree (run under -race in the thorough tier). "
               "Replication units: a replica TranslateFile streams the primary's log through TranslateFile.replicate from a stream that ends at a generated offset "
               "(every entry boundary or the middle of an entry), is closed/reopened at generated points and resumes from its own size; its log must always be a prefix of the "
               "primary's ending at the last complete entry, and at the end log bytes and mapping are identical. A live unit drives SetPrimaryStore/monitorReplication/"
               "the streaming reader end to end, and an http unit attaches a replica to a real node through http.NewTranslateStore (GET /internal/translate/data). Exploration, not proof: held on everything generated.",
    level_note="Trusted: Go toolchain, rapid, the ~60-line model. Not covered: "
               "torn log tails after a crash (C09), logs larger than the configured map size (configuration precondition). Concurrent schedules are whatever the Go scheduler produces.",
    rule="seq: 1-22 operations (translate small batch 0-7 keys with likely repeats / bulk batch / reverse lookup / Close+Open / re-verify all); distinct = hash of the operation trace; "
         "non-trivial = a batch repeats a key that is new in that batch, or crosses a growth threshold (230 or 460 keys in a namespace), or writes an entry with a key > 4 KiB. "
         "edge: map size 4096/5000/8192/32768, generated filler entries, then closing entries sized so that the log ends exactly at the map size (or 1-2 bytes before); "
         "lookups, a replica with the same map size, Close+Open; non-trivial = the log ended exactly at the target. conc: 4 workers x 1-5 batches over 2 namespaces from a 12-key window + special keys, every worker also replays worker 0's first batch; non-trivial = >= 4 keys submitted. "
         "repl: 1-14 operations (primary write / stream up to a generated offset / replica Close+Open / primary Close+Open / lookups on the replica); non-trivial = resume or cut at an "
         "interior entry boundary, a cut inside an entry, or a replica reopened while behind the primary. live: non-trivial = replica resumed behind the primary or any entry streamed. http: 2-8 requests of 1-4 Set(colKey, f=rowKey) calls on a keyed index, replica closed/reattached; non-trivial = resumed behind the node.",
    assumptions=["the log never exceeds the configured map size (8 MiB in most units; the edge unit fills the map exactly)",
                 "ids need not be dense or ordered",
                 "live unit: a replica that has not caught up within 120 s of an idle primary is reported as stuck"],
    tags=[],
    units=[
        U("seq", ".", "^TestVerifC24_Sequential$", 400, 8000, sq=4, sth=5),
        U("edge", ".", "^TestVerifC24_MapEdge$", 80, 1600, sq=1, sth=1),
        U("conc", ".", "^TestVerifC24_Concurrent$", 160, 2000, sq=2, sth=2),
        U("conc_race", ".", "^TestVerifC24_Concurrent$", 0, 800, sq=1, sth=2, race=True, tiers=["thorough"]),
        U("repl", ".", "^TestVerifC24_Replication$", 400, 8000, sq=4, sth=4),
        U("live", ".", "^TestVerifC24_ReplicationLive$", 60, 600, sq=2, sth=2),
        U("http", "./server", "^TestVerifC24_HTTPReplication$", 24, 300, sq=2, sth=1),
    ],
)
