PROP = dict(
    level="exploration",
    technique="in-package exhaustive-small + rapid tests of fragment.mergeBlock against a per-bit majority model; end-to-end on real 2/3-node gossip clusters",
    level_text="TODO",
    level_note="TODO",
    rule="TODO",
    assumptions=[],
    tags=[],
    units=[
        U("mergeexh", ".", "^TestVerifC11_MergeExhaustive$", 0, 0, sq=1, sth=1, rapid=False),
        U("mergernd", ".", "^TestVerifC11_MergeRandom$", 1500, 60000, sq=3, sth=8),
        U("e2e2", "./server", "^TestVerifC11_E2E2$", 60, 1500, sq=2, sth=3),
        U("e2e3", "./server", "^TestVerifC11_E2E3$", 60, 1500, sq=2, sth=3),
    ],
)
