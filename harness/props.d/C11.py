PROP = dict(
    level="exploration",
    technique="in-package exhaustive-small + rapid tests of fragment.mergeBlock against a per-bit majority model; rapid-generated divergence on real 2- and 3-node gossip clusters (replicas = nodes), Server.SyncData, read-back comparison",
    level_text="Function level: fragment.mergeBlock is run on every content of 4 block-edge positions for every replica with 2 and 3 replicas (4608 cases, exhaustive) and on generated "
               "contents (2-5 replicas, up to 200 positions, shards 0/1/5, blocks 0/1/7, local bits in neighbouring blocks); the local fragment must end with exactly the per-bit majority "
               "(ties = set) of the block, bits of other blocks untouched, and the sets/clears returned for every remote must be exactly majority minus remote and remote minus majority; "
               "the repaired fragment's Blocks() must equal those of a fragment that simply holds the majority. "
               "End to end: on real gossip clusters of 2 and 3 nodes with replicas = nodes and the anti-entropy timer off, each case creates an index with 3 of 7 field kinds (set with ranked / lru / no cache, time YMD, bool, mutex, int) "
               "and runs TWO rounds. In each round generated writes reach individual nodes only, through every node-local write path: Field.SetBit/ClearBit/SetValue on the node's holder, API.Import (set and clear, 2 bits, with timestamps), API.ImportValue, "
               "API.ImportRoaring(remote=true, set and clear, chosen views), and PQL Set/Clear/ClearRow/Store executed with QueryRequest.Remote. Then the contents of every (field, view, shard) on every node are read back, Server.SyncData runs on one generated node and "
               "afterwards on all; after each stage every node must hold the per-bit majority of what was read, in the same view, and report identical FragmentBlocks. The second round starts from replicas whose block checksums are cached by the first round and "
               "half of its writes reuse a (field, shard, row) of the first round, so stale-checksum defects of any write path make the second divergence invisible to the pass and are reported.",
    level_note="Exploration, not proof. Replica counts above 3 are covered at function level only (mergeBlock with up to 4 remotes); the cluster half uses 2 and 3 nodes, rows < 300 (blocks 0-2), 1-2 of shards {0,1,3}, "
               "3 of 7 field kinds per case. While finding DX4 is open (a divergent bool / mutex / int fragment makes SyncData fail because ImportRoaring refuses these field types, so no completed pass exists) only the set and time kinds are generated (counted under excluded). Writes that return an error are counted, not judged: the oracle only uses what is read back. The oracle of the cluster half is computed from contents read through API.FragmentBlockData before the sync, so it trusts that read path. "
               "Cluster start-up failure over loopback gossip ends the unit as inconclusive (exit 2). The worktree carries tmp-fix(D11) (importRoaring did not invalidate cached block checksums; owned by another group): "
               "without it the remote replica keeps reporting a stale checksum after being repaired.",
    rule="function level: case = (replica contents of one block, shard, block id); cluster: case = (node count, shards, list of per-node writes, node that syncs). distinct = hash of that input. "
         "non-trivial = some replica needs both a set and a clear in one block, or needs >= 2 clears, or there are >= 3 replicas, or (cluster) a non-standard view diverges.",
    assumptions=["remote block data passed to mergeBlock is sorted by (row, column) and confined to the block, as fragment.blockData produces it",
                 "ties (exactly half of the replicas hold the bit) resolve to set, as the property states",
                 "cluster half: no writes race with the anti-entropy pass (the property speaks of a completed pass over given contents)"],
    tags=["gx"],
    units=[
        U("mergeexh", ".", "^TestVerifC11_MergeExhaustive$", 0, 0, sq=1, sth=1, rapid=False),
        U("mergernd", ".", "^TestVerifC11_MergeRandom$", 1500, 60000, sq=3, sth=8),
        U("e2e2", "./server", "^TestVerifC11_E2E2$", 60, 800, sq=2, sth=4, timeout={"quick": 400, "thorough": 1500}),
        U("e2e3", "./server", "^TestVerifC11_E2E3$", 72, 800, sq=2, sth=4, timeout={"quick": 400, "thorough": 1500}),
    ],
)
