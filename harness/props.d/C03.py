PROP = dict(
    level="exploration",
    technique="property-based testing (rapid): generated derive/mutate/snapshot/close histories at three layers (roaring bitmaps, fragments, API), "
              "every kept value re-read against its own model after every step (metamorphic: later writes elsewhere are the identity on it)",
    level_text="Three layers. (a) roaring [written by gR]: bitmaps derived by Clone/Freeze/Union/Intersect/Difference/Xor/OffsetRange/... from generated "
               "sources, then mutations and storage remaps on either side. (b) fragments opened as the holder opens them (file, mmap, B-tree storage, snapshot "
               "queue): rows from fragment.row (cache miss and hit), rows that adopted them (what query results are), Row.Union/Intersect/Difference/Xor of "
               "kept values, setRow(src) with a kept value as source; then setBit/clearBit/bulkImport/importRoaring (sparse and dense)/clearRow/Snapshot/"
               "Close+Open and Row.SetBit/Row.Merge on kept values. (c) API: kept *Row results of Row/Union/Intersect/Difference/Xor queries and of "
               "Store destinations, then Set/Clear/Import/ImportRoaring (incl. >10000-bit imports that snapshot)/ClearRow/Store/server restarts and "
               "Row.SetBit on the kept results. After every step every kept value must equal the set it had when derived (plus its own mutations) and "
               "every source row must equal the source's model. A fault on unmapped memory is turned into a failure (SetPanicOnFault).",
    level_note="Trusted: Go toolchain, rapid, the map models in c03_frag_test.go / c03_api_test.go / gR's roaring model. Single goroutine: the harness waits for "
               "queued snapshots before re-reading (concurrent access is C29). Row.Merge is treated as a mutation of its receiver only; its argument is no "
               "longer observed afterwards (the statement does not list Merge as a derivation). Layer (a) is owned by gR (tags groar, gr2).",
    rule="(b) case = history of <= 50 steps on two fragments of one shard; distinct = hash of the executed history; non-trivial = some kept row shared >= 1 "
         "container object with the fragment's storage when it was derived (pointer identity) and a later step wrote to that row of that fragment or "
         "snapshotted / closed+reopened it. (c) case = history of <= 40 API steps; non-trivial = a non-empty kept result and >= 2 later "
         "write/snapshot/restart steps. (a): see gR's rule in the test file (derived value shares a container with a live value and a later step writes "
         "that key or remaps storage).",
    assumptions=["rows {0..3}, columns at container and shard edges plus dense ranges (bitmap/run containers), shards {0,1,5}",
                 "the snapshot queue is drained before every re-read (no concurrent reader)",
                 "mutation of kept values uses the exported Row.SetBit / Row.Merge"],
    tags=["gs", "groar", "gr2"],
    units=[
        U("roaring", "./roaring", "^TestVerifC03_Roaring", 520, 16000, steps=30, env={"GOMAXPROCS": "2", "GOGC": "400"}),
        U("frag", ".", "^TestVerifC03_Fragment$", 440, 6000, sq=4, sth=12, timeout={"quick": 600, "thorough": 3000}),
        U("api", "./server", "^TestVerifC03_API$", 80, 1500, sq=4, sth=12, timeout={"quick": 600, "thorough": 3000}),
    ],
)
