PROP = dict(
    level="exploration",
    technique="property-based testing: exhaustive enumeration of small bit depths + rapid-generated write programs vs map model",
    level_text="TODO",
    level_note="TODO",
    rule="TODO",
    assumptions=[],
    tags=["gq1"],
    units=[
        U("fieldexh", ".", "^TestVerifC14_FieldExhaustive$", 0, 0, sq=4, sth=12, rapid=False),
        U("fieldrand", ".", "^TestVerifC14_FieldRandom$", 1200, 40000, sq=4, sth=12),
    ],
)
