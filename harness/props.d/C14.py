PROP = dict(
    level="exploration",
    exhaustive=True,
    technique="property-based testing: exhaustive enumeration of the small-bit-depth space + rapid-generated write programs (depths up to 63), "
              "both against a map model, through PQL and through the field's Go API",
    level_text="Integer fields are compared with a map column->value model. Small-depth tier (plain enumeration, complete in the thorough tier): every "
               "bounds pair from -9..9 plus offset/asymmetric bounds, the stored bit depth driven to each reachable d in 0..7 (and the restart path that "
               "gives base=min), data written by Set, by ImportValue and by a mix with large->small / small->large overwrites and clears, one column per "
               "writable value over three shards with the extremes duplicated across shards; then every predicate from below to above both the declared "
               "bounds and the bit-depth range with all six operators, a grid of between intervals in the four strictness forms (including empty ones), "
               "!= null, and Sum/Min/Max unfiltered and under seven filters (empty, negative-only, other shard, columns without value, BSI conditions) under "
               "four Shards orders. The same is checked on Field.Value/Sum/Min/Max/Range in-package. Random tier: bounds and values near +-2^k up to "
               "2^63-1, 2-4 shards, random write programs and predicates. Exploration, not proof, outside the enumerated space.",
    level_note="Trusted: Go toolchain, rapid, the 150-line map model (duplicated in both test packages). Values/predicates exclude -2^63 (not representable "
               "in the sign-magnitude storage; see assumptions). Field.Range is only queried with predicates inside the declared bounds (it answers nil "
               "outside by contract); PQL covers predicates outside. Clearing is done through ImportValue(clear) with the stored value (the only int clear path). "
               "The bulk import path (fragment.importSetValue) is reached with requests of >= 10000/(bitDepth+1) values into one shard (unit pqlbulk); "
               "reads are interleaved with the writes in the random and bulk units so that writes meet a warm row cache.",
    rule="distinct = hash of (bounds, depth, write mode) in the enumerated tier and of (bounds, write program) in the random tier. Non-trivial = a predicate "
         "outside the bit-depth range but inside the declared bounds was queried, or an extreme value is tied across shards, or a filter selects only negative "
         "values, or an overwrite shrinks a value (needs fewer bits), or the mixed write mode (overwrites + clears) was used.",
    assumptions=["reference model = map[column]int64 in harness/pkg/_root/gq1_model_test.go and harness/pkg/server/gq1_srv_test.go",
                 "only in-range values are written (out-of-range writes are rejected by the field); -2^63 is never used as bound, value or predicate",
                 "Sum is compared only when the exact sum fits int64",
                 "one entry per column in an ImportValue request at API level (in-package: last entry of a column wins, as the fragment code iterates)",
                 "base != 0 is reached only the way a user can: field created, server/field reopened before its first write (base = min)"],
    tags=["gq1"],
    units=[
        U("fieldexh", ".", "^TestVerifC14_FieldExhaustive$", 0, 0, sq=4, sth=12, rapid=False, timeout={"quick": 600, "thorough": 1800}),
        U("fieldrand", ".", "^TestVerifC14_FieldRandom$", 400, 12000, sq=4, sth=12),
        U("pqlexh", "./server", "^TestVerifC14_PQLExhaustive$", 0, 0, sq=4, sth=12, rapid=False, timeout={"quick": 600, "thorough": 2400}),
        U("pqlrand", "./server", "^TestVerifC14_PQLRandom$", 100, 3600, sq=4, sth=12),
        U("pqlbulk", "./server", "^TestVerifC14_PQLBulk$", 36, 1200, sq=4, sth=12),
        U("wit", ".", "^TestVerifWitness_(D16|D17|DQA[1-5])$", 0, 0, sq=1, sth=1, rapid=False),
        U("witapi", "./server", "^TestVerifWitness_DQA6$", 0, 0, sq=1, sth=1, rapid=False),
    ],
)
