PROP = dict(
    level="exploration",
    technique="property-based testing (rapid): generated datasets x grammar-directed PQL expressions / write programs vs a model interpreter, through API.Query on a running single-node server",
    level_text="Each run builds hundreds of small indexes whose columns sit on container and shard edges of up to four (also non-adjacent) shards, "
               "with set, time, int, mutex and bool fields, and compares every generated bitmap expression (Row plain / time range / int condition, Union, "
               "Intersect, Difference, Xor, Not, Shift, Count; depth <= 4, arity <= 3) and every step of generated Set/Clear/ClearRow/Store programs with a "
               "naive map-based model of the documented semantics. Exploration, not proof: held on everything generated.",
    level_note="Trusted: Go toolchain, rapid, the ~300-line model in gpql_model_test.go. Single node only (placement independence is C17). Time ranges use bounds "
               "aligned to the smallest unit of the field's quantum (unaligned bounds are C18); int leaves use fields declared around zero, one-sided and with a non-zero base, values and predicates at 0, +-1, stored values +-1, the declared bounds +-1 and far outside, all six operators, both between forms (also empty/inverted intervals) and != null; "
               "keyed indexes/fields are not generated. Open finding D18 (Shift carry over a shard edge below a per-shard operator or Store) is tolerated by exactly that shape.",
    rule="distinct = hash of schema + data program + query texts. non-trivial = some query of depth >= 2 whose leaf operands hold bits in >= 2 shards, or a Shift "
         "whose operand has a bit on the last column of a container or shard, or a Not while some shard with existence data holds no bit of the operand, or (write "
         "programs) a Store whose source spans >= 2 shards or which removes the row from a shard, or a ClearRow that removed bits.",
    assumptions=["reference model = harness/pkg/server/gpql_model_test.go, grounded in docs/query-language.md",
                 "missing field: any error is accepted; if a result is returned the missing field counts as empty. Not without trackExistence must return an error (docs: 'requires').",
                 "open-ended time ranges (only from / only to) are generated only for quanta with a year view and assume the wall clock is later than 2019 (default to = now + 1 day)",
                 "boolean results of writes are compared where the docs pin them down (not for Set with a timestamp: several views are written by one call)",
                 "plain Row(f=r) is not generated on noStandardView time fields (not documented); all ten time quanta are generated"],
    tags=["gpql"],
    units=[
        U("expr", "./server", "^TestVerifC15_Expr$", 200, 3000, timeout={"quick": 600, "thorough": 3000}),
        U("writes", "./server", "^TestVerifC15_Writes$", 160, 2400, timeout={"quick": 600, "thorough": 3000}),
    ],
)
