PROP = dict(
    level="exploration",
    technique="property-based testing (rapid), round trip: generated set-field contents -> ctl.ExportCommand -> ctl.ImportCommand into an empty field -> compared with the generated pairs",
    level_text="Generated contents of a set field (0-14 pairs with duplicates, rows and columns as ids over up to 4 non-contiguous shards or as keys drawn from a pool with commas, "
               "double quotes, leading/trailing spaces, newlines, tabs, backslashes, Unicode and a 400-character key; all four key modes) are written with API.Import, exported with the "
               "real export command against an in-process server (every shard), and the exported bytes are imported with the real import command (buffer sizes 1, 3 and default; "
               "with and without --sort) into an empty field of the same type in a fresh index on the same or on a second server; both servers also hold two decoy indexes (names sorting before and after the target) with a field of the same name but another type / other keys settings (opposite to the target in half of the cases). The export must parse as CSV into exactly the "
               "generated pairs, and after the import a second export, Rows(f) and Row(f=...) must give exactly the generated pairs again. Exploration, not proof.",
    level_note="Trusted: Go toolchain, encoding/csv as the reader of the exports, rapid. Keys containing \\r and the empty key are excluded (outside the stated key domain: Go's CSV reader "
               "normalises \\r\\n and the import command skips records whose first field is blank). Row(f=\"key\") read-back is only done for keys made of [a-z0-9 ,#=-] (PQL string "
               "parsing is C26's subject); the other keys are read back through Rows(f) and the second export. Column keys are translated to consecutive ids, so keyed columns stay in shard 0.",
    rule="a case is (rowKeys, colKeys, cache type, list of pairs in write order, import buffer size, sort flag, same/other server); distinct = hash of that. "
         "non-trivial = at least 2 distinct pairs and (a key with comma/quote/space/newline/non-[a-z0-9] characters, or ids in >= 2 shards).",
    assumptions=["single-node servers", "set fields only (the property statement)"],
    tags=["gt"],
    units=[
        U("roundtrip", "./ctl", "^TestVerifC30_RoundTrip$", 120, 1600, sq=4, sth=8),
    ],
)
