PROP = dict(
    level="exploration",
    technique="fuzzing with structure-aware mutators driven by rapid: a real server child process over HTTP (liveness, reply, canary read/write, "
              "data-unchanged oracle) plus in-process companions on the decoders that run outside any recover",
    level_text="A real pilosa server runs as a child process; generated requests hit /index/i/field/f/import-roaring/{shard} (valid Pilosa and official roaring "
               "encodings mutated at section boundaries, key counts, offsets, container types, cardinalities, run counts, magic/version, plus tiny and random payloads "
               "and random protobuf bodies, one or two views, set and clear), /index/i/query (pool queries mutated at token level, random bytes, arbitrary Unicode, "
               "nesting up to 20000 deep, 60000-element lists) and /internal/cluster/message (every type byte x empty/truncated/valid-for-another-type/random payloads). "
               "After each request the child must be alive, have answered with a 2xx or error status, serve a canary read and a canary Set on the same fragment, and - if "
               "the request was rejected - hold exactly the data it held before. In-process companions feed the same byte generators into roaring.UnmarshalBinary, "
               "ImportRoaringBits on a B-tree bitmap (with a reference reading of the payload: accepted consistent payloads must equal decode-then-merge, rejected "
               "ones must leave the bitmap unchanged, and the bitmap must survive count/read/add/optimize/write), fragment.Open on mutated fragment files incl. the op log, "
               "API.ClusterMessage as the gossip delegate calls it, and pql.ParseString (must return - a value or an error - and must finish; every panic site of pql/ast.go that text can reach is driven by a dedicated generator and listed as a site:* class). A panic in those is a failure. Exploration, not proof.",
    level_note="Trusted: Go toolchain, rapid, the byte-level encoders/reference reader of the two roaring formats in harness/pkg/roaring/c06_bytes_test.go (self-checked "
               "against the decoder on unmutated encodings). Seeds hold 1-3 containers (so the official run-cookie form never carries an offset header). In the in-process roaring checks the payload ends exactly at an inaccessible guard page (debug.SetPanicOnFault), so reads past the end made through unsafe pointers are caught too. "
               "Recovered panics of the HTTP request goroutine (500 'PANIC:') count as rejections by the statement and are only counted in the evidence. "
               "After an accepted cluster message only liveness is judged (a well-formed message may legitimately change the node's cluster state); the child is replaced whenever it no longer reports a one-node NORMAL cluster. "
               "Hangs are detected with generous timeouts (40 s per request, 60 s per parse) on operations that take milliseconds. A native go fuzz target on both roaring decoders runs in the thorough tier (120 s, 8 workers) with the same oracles; it contributes no evidence counts.",
    rule="server: one request per case, entry point import|query|message (3:2:1); distinct = hash of path+body; non-trivial = the request passed the first validation: "
         "import accepted or rejected by a container/offset check, query text that parses (or a recovered panic), message decoded and handed to receiveMessage. "
         "roaring/stored companions: non-trivial = accepted, or >= 8 bytes (past the magic/length check). parse: non-trivial = accepted, or rejected after the first symbol (incl. every error-site case). "
         "message: non-trivial = decoded (accepted or refused by receiveMessage).",
    assumptions=["an import payload is 'consistent' iff a strict reading by the format descriptions succeeds (cardinalities match, arrays and runs strictly increasing, keys increasing)",
                 "a query text is malformed iff pql.ParseString (same build, in the parent) rejects it; only then must a rejected query leave data unchanged "
                 "(a well-formed multi-call query may fail at a later call after earlier calls were applied)",
                 "stored fragment data: while DP10 is open, files whose container section is not consistent but are accepted are not used further (signature of DP10)",
                 "while DP14 is open, a panic raised inside the generated protobuf code internal/*.pb.go (stack inspected) on a cluster message is counted as excluded, not as a violation"],
    tags=["gp"],
    units=[
        U("server", "./server", "^TestVerifC06_Server$", 900, 24000, sq=3, sth=8, timeout={"quick": 600, "thorough": 3000}),
        U("message", "./server", "^TestVerifC06_ClusterMessage$", 1500, 30000, sq=1, sth=3, timeout={"quick": 600, "thorough": 3000}),
        U("roaring-unmarshal", "./roaring", "^TestVerifC06_UnmarshalBinary$", 8000, 240000, sq=2, sth=6),
        U("roaring-import", "./roaring", "^TestVerifC06_ImportRoaringBits$", 6000, 160000, sq=3, sth=8),
        U("fuzzroaring", "./roaring", "^$", 0, 0, sq=1, sth=1, fuzz="FuzzVerifC06Roaring", fuzztime={"thorough": 120}, fuzzprocs=8, tiers=["thorough"], rapid=False),
        U("parse", "./pql", "^TestVerifC06_ParseString$", 6000, 120000, sq=2, sth=4),
        U("fragimport", ".", "^TestVerifC06_FragmentImport$", 1500, 40000, sq=2, sth=6),
        U("stored", ".", "^TestVerifC06_StoredFragment$", 2400, 60000, sq=2, sth=6),
    ],
)
