PROP = dict(
    level="exploration",
    technique="exhaustive enumeration (bounded window) + property-based testing (rapid): view decomposition vs an independent interval parser; API results vs a timestamp model",
    level_text="For all 10 valid quanta, every range aligned to the quantum's finest unit with a start in a multi-year window containing a leap year "
               "and a bounded length is enumerated: the views returned by viewsByTimeRange are decoded by the harness's own name parser and must be "
               "pairwise disjoint, use only units of the quantum and cover exactly [start,end); a second exhaustive unit enumerates every pair of endpoints that lie "
               "within 2 finest units of a coarser-unit boundary (1 Jan, 31 Dec, first/last day of each month, 28/29 Feb, 1 Mar) over a leap year and its neighbours with spans "
               "up to 3 years (ranges ending or starting just short of a year/month boundary a whole number of coarser units away); random long ranges (years apart, a third of "
               "them with both endpoints near such boundaries in any year 2015-2025) are added by rapid. "
               "Every view name of every hour of the window (all 24 hours, Y/M/D/H names) must map back through timeOfView to the start and the end of "
               "the interval it denotes; minMaxViews must bracket the view list a time field really has (including the view 'standard'). At API level "
               "bits set with timestamps through Set and Import are read with Row(f=r, from, to) and Rows(f, from, to) and compared with the model "
               "'columns/rows with a timestamp in the range'. The window enumeration is complete for its stated bounds; everything else is exploration.",
    level_note="Trusted: Go toolchain (time.Date normalisation), rapid, the 60-line interval parser in gt_timekit_test.go. Rows(f, to=T) without from is included (lower end = earliest view); ranges without to and Row(f=r, to=T) without from depend "
               "on the wall clock and are excluded. Ranges not aligned to the finest unit are outside the property statement.",
    rule="window: (quantum, start, length) triples, start aligned to the finest unit (H: hourly 2019-11..2021-03, quick tier +-36h around each of the 15 month "
         "boundaries; D: daily; M: 2018-2022; Y: 2014-2025), length 0..40h/70d/30mo/4y; edges: (quantum, start, end) with both endpoints within 2 finest units of a month/year boundary or 28 Feb, "
         "years 2019-2021 (thorough 2015-2025), span <= 3 years (100 days / 4 days when the coarsest unit is D / H); long: rapid (quantum, start, end) with years 2015-2025 (2018-2022 / 2019-2021 when the coarsest unit is D / H) biased to month ends/leap days; "
         "tov: (hour, unit) pairs; minmax: (quantum, shuffled view list); api: (quantum, noStandardView, timestamped bit list incl. stamps on boundary days and the same (row, column) bit set again at other timestamps / first without a timestamp, query ranges incl. ranges that end at the unit of a stored bit and start at a coarser-unit boundary 0-2 units earlier). distinct = hash of that input. "
         "non-trivial = the range crosses a month end, year end or Feb 29 or needs >= 3 view granularities; tov: hour >= 12 or a month-end/Feb/Dec date; "
         "minmax: >= 4 views incl. 'standard'; api: bits in >= 2 views and a query range cutting through the stored timestamps.",
    assumptions=["view names are decoded by the harness's own digit parser (not time.Parse layouts)",
                 "ranges are aligned to the quantum's finest unit (property statement); from and to are both explicit",
                 "API level: the server process runs with a non-UTC local zone (-11h, -3h30, +5h30 or +13h by shard seed) and a third of the ranges are given as unix integers; single node, timestamps 2017-2023 at whole minutes"],
    tags=["gt"],
    units=[
        U("window", ".", "^TestVerifC18_RangeWindow$", 0, 0, sq=4, sth=12, rapid=False),
        U("edges", ".", "^TestVerifC18_RangeEdges$", 0, 0, sq=4, sth=12, rapid=False),
        U("long", ".", "^TestVerifC18_LongRanges$", 4000, 200000, sq=2, sth=6),
        U("tov", ".", "^TestVerifC18_TimeOfView$", 0, 0, sq=1, sth=1, rapid=False),
        U("minmax", ".", "^TestVerifC18_MinMaxViews$", 6000, 200000, sq=1, sth=4),
        U("api", "./server", "^(TestVerifC18_API|TestVerifWitness_(D21|DT2)_API)$", 240, 3000, sq=4, sth=10),
    ],
)
