PROP = dict(
    level="exploration",
    technique="property-based testing (rapid), differential: one generated logical history written through every write path into identically configured fields, probed with one query battery and compared with a reference model and pairwise",
    level_text="A generated history of set and clear batches (with duplicates, redundant sets and set-then-clear, over up to 4 shards) is written into one "
               "fresh index per path: Set()/Clear() PQL, API.Import by ids, API.Import by keys, API.ImportRoaring with the Pilosa and with the official roaring "
               "encoding (one bitmap per view), API.ImportValue for int fields (small and bulk-sized requests, set and clear), and a mixture that draws the path per batch. Field types: set (ranked/lru/none "
               "cache), mutex, bool, time (all 10 quanta, with/without standard view) and int, keyed and unkeyed. Every path is then read with the same battery "
               "(Row, Count, Not, Rows, TopN and TopN(ids) after RecalculateCaches, Row/Rows with time ranges, Row(f==v), Row(f != null), Sum, Min, Max, range "
               "predicates) and every answer must equal the model and the other paths. Exploration, not proof.",
    level_note="Trusted: Go toolchain, rapid, the 80-line logical model, the harness's official-roaring encoder (cookie 12346, arrays/bitsets). Encoded in the model as documented "
               "behaviour: ImportRoaring is refused for mutex/bool/int fields (asserted) and does not touch the existence field (Not() differs on that path by design); "
               "TopN is read after RecalculateCaches. Int range predicates (>, <=, !=, filtered Sum) are compared pairwise only; Min/Max counts are not compared (D17, other group). "
               "Within one mutex/bool/int import batch a column carries one row/value (bulk imports have no documented intra-batch order). Int values cannot be cleared through PQL: int clear batches go through ImportValue(clear) of the stored value on every path. The extra int path bulk sends each set batch as one bulk-sized ImportValue per shard (the entry of a filler column, which every path writes once, repeated to 10001 entries).",
    rule="a case is (field type and options, key mode, 1-5 batches of 1-8 set or clear operations over 1-4 rows x 1-6 columns from a pool straddling shard edges, optional timestamps, "
         "mixture choice, probe parameters); distinct = hash of field options and batches. non-trivial = the history has a duplicate/redundant set or a set-then-clear, touches >= 2 shards and "
         "(time fields) wrote >= 2 time views.",
    assumptions=["single node", "rows <= 1000 so that positions fit the official 32-bit roaring format", "timestamps at whole minutes 2017-2023; time ranges aligned to the finest unit with explicit bounds"],
    tags=["gt"],
    units=[
        U("paths", "./server", "^TestVerifC28_Paths$", 200, 1500, sq=4, sth=10),
    ],
)
