PROP = dict(
    level="exploration",
    technique="in-package enumeration + rapid over cluster shapes with a real Holder in a temp dir; the plan of cluster.unprotectedGenerateResizeJobByAction (fragSources per index) is compared with an independent ownership model; cleanup is exercised with holderCleaner.CleanHolder on real per-node holders",
    level_text="Grid: members node1..nodeN for N = 1..6, replicas 1..4, every single-node add (new id sorting first, between each pair of neighbours, last) and every remove of a non-coordinator node, "
               "over two fixed schemas (2 indexes, 1-3 views per field, shards within 0..12, local fragments and remote-available shards); complete for these bounds. Random: generated id sets from a 10-id pool, "
               "1-2 indexes, 1-3 fields with 0-3 views, generated local/remote shard sets within 0..12. For each configuration the resize job produced by the coordinator's own plan generator must "
               "(a) name, in the instruction of every resulting node, a source for every (index, field, view, shard) the node owns after but not before according to the model of C20, "
               "(b) only name sources that owned the shard before, are members, carry the member's URI and are not the removed node, "
               "(c) be refused only with the 'not enough data' error and only when the model finds a newly owned fragment whose previous owners are all the removed node, "
               "(d) track exactly the resulting members, complete = has no sources. Then a real holder of one resulting node is filled with what the node held before plus what its instruction fetches, "
               "holderCleaner.CleanHolder runs against the resulting cluster, and the fragments left must be exactly those whose shard the node owns now. When that node is not the coordinator the same is repeated through the node's own `cluster`: a follower with a real Holder receives the status messages of a real resize "
               "(NORMAL with the old members, RESIZING with the old members as carried by every ResizeInstruction, then - after the fragments of its instruction were created - NORMAL with the new members) through mergeClusterStatus, "
               "and the cleanup it triggers itself on RESIZING -> NORMAL must leave exactly the fragments it owns under the NEW membership, for add-node and remove-node jobs. nodeLeave of the coordinator must be refused without any change.",
    level_note="Exploration beyond the stated grid. 'Names a source for every newly owned fragment' is checked as inclusion; plan entries that are not newly owned are only counted (none observed). "
               "The universe of fragments is every field/view of an index x the index-level available shards, which is how the plan generator itself enumerates (a field without data in a shard still gets an entry). "
               "Removal of the coordinator and removal of the only node are outside the plan generator's callers (nodeLeave refuses) and are checked as refusals. "
               "Trusted: the ownership model shared with C20 (gx_model_test.go). The data transfer itself (followResizeInstruction over HTTP) is not executed here.",
    rule="case = (members, replicas, coordinator, add/remove + node, schema with shard sets, nodes cleaned). distinct = hash of it. non-trivial = some node newly owns a fragment and "
         "(replicas > 1, or the action is a remove, or the plan is refused, or exactly one surviving previous owner can serve).",
    assumptions=["one node is added or removed at a time (cluster.diff rejects anything else)",
                 "the node being removed is not the coordinator (nodeLeave refuses that request before planning)",
                 "replicas 1..4, shards 0..12, at most 6 members before the change",
                 "cleanup check: 'removes any unnecessary fragments' (doc comment of CleanHolder) is read as: exactly the fragments of shards the node does not own are deleted"],
    tags=["gx"],
    units=[
        U("grid", ".", "^TestVerifC21_(Grid|CoordinatorLeave)$", 0, 0, sq=6, sth=8, rapid=False),
        U("random", ".", "^TestVerifC21_Random$", 1600, 40000, sq=4, sth=12),
    ],
)
