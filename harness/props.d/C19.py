PROP = dict(
    level="exploration",
    technique="property-based testing (rapid), stateful: generated Set/Clear histories vs a per-view reference model (field level) and vs a timestamp model through PQL (API level)",
    level_text="Generated histories of timestamped sets of a target bit and of sibling bits (other columns, rows and shards whose timestamps fall in neighbouring "
               "hours, days, months and years, so that views the target is not in are interleaved with views it is in) followed by clears and further sets are "
               "applied to a time field for each of the 10 quanta, with and without the standard view. At field level every view of the field is compared with a "
               "per-view model after each clear; at API level Row(f=row) and Row(f=row, from, to) over every single stored interval, the whole span and random "
               "aligned ranges are compared with the model after each Clear() query. Exploration, not proof.",
    level_note="Trusted: Go toolchain, rapid, the per-view model (40 lines) with its own view naming. Open-ended ranges depend on the wall clock and are excluded. "
               "Only Set()/SetBit-written data (all quantum views of a timestamp written together) is generated here; data imported into single views is covered by C28.",
    rule="a case is (quantum, noStandardView, history of 2-14 operations Set(target|sibling, timestamp), Set without timestamp, Clear(target|sibling)); "
         "distinct = hash of that. non-trivial = at some Clear the field has >= 3 time views that do not hold the cleared bit and one of them lies, in name order, between two views that hold it.",
    assumptions=["single node; timestamps at whole hours 2016-2022", "views are read directly (field level) or through Row/Row(from,to) with explicit aligned bounds (API level)"],
    tags=["gt"],
    units=[
        U("field", ".", "^TestVerifC19_FieldClear$", 1000, 10000, sq=4, sth=10),
        U("api", "./server", "^(TestVerifC19_API|TestVerifWitness_(D22|DT1)_API)$", 240, 1500, sq=4, sth=10),
    ],
)
