PROP = dict(
    level="exploration",
    technique="property-based testing (rapid): grammar-directed (AST, text) generator vs pql.ParseString; Call.String() re-parse round trip on parser- and "
              "executor-placed value types; differential 2-node cluster vs single node",
    level_text="Queries are generated from the grammar file pql/pql.peg together with the AST they denote (every call form, positional and keyword arguments, "
               "all 7 condition operators, both `a < f < b` forms, lists, null/true/false, int64 edges and out-of-range integers, decimals, timestamps, bare words, "
               "strconv.Quote'd arbitrary byte strings, raw and single-quoted Unicode strings, random whitespace where the grammar has `sp`); ParseString must return "
               "exactly that AST in values and Go types, or the documented error for out-of-range integers / duplicate arguments. Every parsed query, and every call "
               "after the real executor front half (translateCalls on keyed/unkeyed indexes and fields, validateCallArgs, the TopN refetch clone), is printed with "
               "String() and must re-parse to the same call. On a real 2-node cluster generated query histories (writes forwarded to the shard owner, attributes sent "
               "to every node, TopN with ids, null conditions, float attributes) must give the same typed results as on a single node. Exploration, not proof.",
    level_note="Trusted: Go toolchain, rapid, strconv (Quote/ParseFloat define the meaning of string and decimal literals), the generator's reading of pql.peg. "
               "Not generated: backslashes inside single-quoted strings and raw (non strconv.Quote) backslash escapes (the grammar gives them no meaning), "
               "invalid UTF-8 in the query text, row/column ids >= 2^63 (not expressible in PQL), Min/Max results on the cluster (tie handling is C14/C17). "
               "TopN(n=k) results are compared by their counts only (which of several equal rows survives the cut is unspecified). "
               "The cluster part depends on loopback gossip start-up; a start-up failure ends the worker (inconclusive), never a violation.",
    rule="parse: rapid-generated query of 0-3 calls, depth <= 3, <= 4 args and <= 3 children per call, distinct = hash of the query text; non-trivial = the text holds at "
         "least one of: non-ASCII or escaped string, condition or conditional, list, call-valued argument, nested call, special call form (Set/SetRowAttrs/TopN/Range/...), "
         "int64 edge or out-of-range integer, decimal, timestamp, null/bool, duplicate argument, tab/newline whitespace, string in a positional slot. "
         "forward: 1-3 executable calls over indexes i (ids) and ik (column keys) with set/keyed/bool/int/time fields; non-trivial = after the executor front half a call "
         "holds a uint64, []int64, []uint64, nil, float64, *Condition, *Call or list argument. cluster: history of 3-12 queries on a fresh index sent to either node; "
         "non-trivial = history holds float/null attributes, a null condition, TopN with ids or n, bulk SetRowAttrs or a keyed row.",
    assumptions=["the meaning of a query text is defined by pql/pql.peg read as a PEG (ordered choice), plus: integer literals are int64, decimal literals float64 "
                 "(IEEE nearest), `a < f < b` is the inclusive range [a+1, b-1], out-of-range integers and duplicate arguments are parse errors (parser.go constants)",
                 "int64 and uint64 (and []int64 / []uint64 / lists of integers) of equal value are the same argument value: every consumer reads them through "
                 "UintArg/IntArg/UintSliceArg/validateCallArgs",
                 "row and column ids are < 2^63 (larger ids cannot be written in PQL at all)",
                 "cluster part: keyed writes enter through the coordinator (key translation across nodes is property C24)"],
    tags=["gp"],
    units=[
        U("parse", "./pql", "^TestVerifC26_Parse$", 6000, 400000, sq=6, sth=14, timeout={"quick": 300, "thorough": 1500}),
        U("forward", ".", "^TestVerifC26_Forward$", 2000, 80000, sq=4, sth=8, timeout={"quick": 300, "thorough": 1500}),
        U("fuzzparse", "./pql", "^$", 0, 0, sq=1, sth=1, fuzz="FuzzVerifC26Parse", fuzztime={"thorough": 120}, fuzzprocs=8, tiers=["thorough"], rapid=False),
        U("cluster", "./server", "^TestVerifC26_Cluster$", 120, 3000, sq=3, sth=6, timeout={"quick": 300, "thorough": 1500}),
    ],
)
