PROP = dict(
    level="exploration",
    technique="property-based testing (rapid): grammar-directed (AST, text) generator vs pql.ParseString; String() re-parse round trip; 2-node vs 1-node differential",
    level_text="TODO",
    level_note="TODO",
    rule="TODO",
    assumptions=[],
    tags=["gp"],
    units=[
        U("parse", "./pql", "^TestVerifC26_Parse$", 8000, 1000000, sq=4, sth=14),
    ],
)
