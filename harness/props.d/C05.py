_ENV = {"GOMAXPROCS": "2", "GOGC": "400"}  # allocation-heavy checks: fewer GC threads on the shared machine

PROP = dict(
    level="exploration",
    technique="property-based testing (rapid state machine): generated histories of logged mutations; round trip decode(snapshot ++ op log) "
              "vs live bitmap vs sorted-slice model, counters vs a counting model",
    level_text="Generated histories (about 30 steps) of Add/Remove (single and multi-value), AddN/RemoveN (duplicates, absent and unchanged "
               "values), ImportRoaringBits(log=true) set/clear with Pilosa and official payloads (including ones that change nothing) and "
               "re-encoding (new WriteTo snapshot, counters reset, fresh log; continuing on the same object, on a bitmap re-opened from the "
               "snapshot bytes, or re-opened in place) run on a slice-backed and a B-tree-backed bitmap whose OpWriter is a buffer. After every step "
               "snapshot++log is decoded into fresh bitmaps of both kinds: set, structure and Ops() must equal the live bitmap and the model "
               "(ops = operations written, opN = bits they changed), and decoding must not write into the decoded bytes. At the end every log "
               "prefix that ends on an op boundary must replay to the model state after that many ops. Exploration, not proof.",
    level_note="Trusted: Go toolchain, rapid, the set model and the two-counter model. Histories <= ~30 steps over <= 4 container keys; the writer never "
               "fails (error-path rollback of AddN/RemoveN is not explored); torn/truncated log tails belong to C09.",
    rule="rapid t.Repeat state machine over an initial generated bitmap. distinct = hash of focus keys + full history. non-trivial = a batch op "
         "whose logged slice is shorter than its input, or a roaring op whose opN differs from the payload cardinality, followed by at least one more op.",
    assumptions=["ops counts operations written to the log (one per value for Add/Remove), opN the bits they changed (1 per single op, changed count for batch and roaring ops), as documented on roaring.Bitmap",
                 "snapshot bytes are the bitmap's own WriteTo output; the log starts empty after a snapshot",
                 "official payloads only address keys < 2^16 and hold at least one container"],
    tags=["groar", "gr2", "c02", "gfrag"],
    units=[
        U("oplog", "./roaring", "^TestVerifC05_Machine$", 1000, 30000, steps=30, env=_ENV),
        # fragment level (group gF): the data file of a real fragment (snapshot ++ appended log) vs fragment.storage, set and Ops(),
        # at every quiescent point of gfrag-machine histories over all fragment kinds (harness/pkg/_root/c05_fragfile_test.go)
        U("fragfile", ".", "^TestVerifC05_FragmentFile$", 800, 12000, sq=5, sth=14, timeout={"quick": 900, "thorough": 2400}),
    ],
)
